package core

import (
	"fmt"
	"go/constant"
	"go/token"
	"go/types"
	"regexp"
	"sort"
	"strings"

	"golang.org/x/tools/go/ssa"
)

// ---------------------------------------------------------------------------
// Callee resolution (never by spelling of a call expression)

// CalleeName returns the fully qualified name of what a call invokes:
//   - static callee:  types.Func.FullName(), e.g. "(*…/graph.Graph).AddEdge", "strings.ToLower"
//   - interface call: "(reflect.Type).Kind"
//   - builtin:        "builtin.len"
//   - closure value / dynamic: "" (see DynamicCallee)
func CalleeName(c *ssa.CallCommon) string {
	if c.IsInvoke() {
		return c.Method.FullName()
	}
	switch v := c.Value.(type) {
	case *ssa.Builtin:
		return "builtin." + v.Name()
	case *ssa.Function:
		if o := v.Object(); o != nil {
			if fn, ok := o.(*types.Func); ok {
				return fn.FullName()
			}
		}
		return v.String()
	case *ssa.MakeClosure:
		return v.Fn.(*ssa.Function).String()
	}
	return ""
}

// ShortCallee trims the module path from a callee name for display and keys.
func ShortCallee(n string) string {
	n = strings.ReplaceAll(n, GraphPath+".", "graph.")
	n = strings.ReplaceAll(n, ArgPath+".", "")
	return n
}

// CallArgs returns receiver (if any) followed by arguments.
func CallArgs(c *ssa.CallCommon) []ssa.Value {
	if c.IsInvoke() {
		return append([]ssa.Value{c.Value}, c.Args...)
	}
	return c.Args
}

// IsCallTo reports whether instruction in is a call whose callee has one of the given names.
func IsCallTo(in ssa.Instruction, names ...string) (*ssa.CallCommon, bool) {
	ci, ok := in.(ssa.CallInstruction)
	if !ok {
		return nil, false
	}
	n := CalleeName(ci.Common())
	for _, w := range names {
		if n == w {
			return ci.Common(), true
		}
	}
	return nil, false
}

const (
	GAdd          = "(*" + GraphPath + ".Graph).Add"
	GAddOverwrite = "(*" + GraphPath + ".Graph).AddOverwrite"
	GAddEdge      = "(*" + GraphPath + ".Graph).AddEdge"
	GAddEdgeW     = "(*" + GraphPath + ".Graph).AddEdgeWeighted"
	GRemove       = "(*" + GraphPath + ".Graph).Remove"
	GRemoveEdge   = "(*" + GraphPath + ".Graph).RemoveEdge"
	GVertices     = "(*" + GraphPath + ".Graph).Vertices"
	GVertex       = "(*" + GraphPath + ".Graph).Vertex"
	GOutEdges     = "(*" + GraphPath + ".Graph).OutEdges"
	GInEdges      = "(*" + GraphPath + ".Graph).InEdges"
	GReverse      = "(*" + GraphPath + ".Graph).Reverse"
	GCopy         = "(*" + GraphPath + ".Graph).Copy"
	GDijkstra     = "(*" + GraphPath + ".Graph).Dijkstra"
	GEdgeToPath   = "(*" + GraphPath + ".Graph).EdgeToPath"
	GDFS          = "(*" + GraphPath + ".Graph).DFS"
	GVertexID     = GraphPath + ".VertexID"
	RVCall        = "(reflect.Value).Call"
	RVIsValid     = "(reflect.Value).IsValid"
)

// ---------------------------------------------------------------------------
// Iteration helpers

// Instrs calls fn for every instruction of f.
func Instrs(f *ssa.Function, fn func(ssa.Instruction)) {
	for _, b := range f.Blocks {
		for _, in := range b.Instrs {
			fn(in)
		}
	}
}

// Calls returns every call instruction (call, go, defer) in f whose callee is one of names
// (all calls if names is empty).
func Calls(f *ssa.Function, names ...string) []ssa.CallInstruction {
	var out []ssa.CallInstruction
	Instrs(f, func(in ssa.Instruction) {
		ci, ok := in.(ssa.CallInstruction)
		if !ok {
			return
		}
		if len(names) == 0 {
			out = append(out, ci)
			return
		}
		n := CalleeName(ci.Common())
		for _, w := range names {
			if n == w {
				out = append(out, ci)
				return
			}
		}
	})
	return out
}

// WithNested returns f followed by all function literals nested in it.
func WithNested(f *ssa.Function) []*ssa.Function {
	out := []*ssa.Function{f}
	for _, a := range f.AnonFuncs {
		out = append(out, WithNested(a)...)
	}
	return out
}

// ---------------------------------------------------------------------------
// Value normalisation

// Strip removes representation-only wrappers (interface boxing, type changes).
func Strip(v ssa.Value) ssa.Value {
	for {
		switch x := v.(type) {
		case *ssa.MakeInterface:
			v = x.X
		case *ssa.ChangeType:
			v = x.X
		case *ssa.ChangeInterface:
			v = x.X
		default:
			return v
		}
	}
}

// ConstString returns the string value if v is a string constant.
func ConstString(v ssa.Value) (string, bool) {
	if c, ok := v.(*ssa.Const); ok && c.Value != nil && c.Value.Kind() == constant.String {
		return constant.StringVal(c.Value), true
	}
	return "", false
}

// ConstInt returns the integer value if v is an integer constant.
func ConstInt(v ssa.Value) (int64, bool) {
	if c, ok := v.(*ssa.Const); ok && c.Value != nil && c.Value.Kind() == constant.Int {
		i, ok := constant.Int64Val(c.Value)
		return i, ok
	}
	// a converted constant (int32(weight) etc.) is not a constant
	return 0, false
}

// IsNilConst reports a nil constant of any type.
func IsNilConst(v ssa.Value) bool {
	c, ok := v.(*ssa.Const)
	return ok && c.Value == nil
}

// SingleStore returns the only value ever stored to local allocation a (in its
// function and nested closures), or nil if there are zero or several.
func SingleStore(a *ssa.Alloc) ssa.Value {
	var val ssa.Value
	n := 0
	for _, ref := range *a.Referrers() {
		if st, ok := ref.(*ssa.Store); ok && st.Addr == a {
			val = st.Val
			n++
		}
	}
	if n == 1 {
		return val
	}
	return nil
}

// pure callees whose results are determined by their arguments (no CSE in go/ssa,
// so two textual occurrences are distinct SSA values; paths identify them).
var pureCallees = map[string]bool{
	GVertexID:                   true,
	GraphPath + ".hashcode":     true,
	"strings.ToLower":           true,
	"strings.ToUpper":           true,
	"(reflect.Type).Kind":       true,
	"(reflect.Type).Elem":       true,
	"(reflect.Type).NumOut":     true,
	"(reflect.Type).NumIn":      true,
	"(reflect.Type).NumField":   true,
	"(reflect.Value).Type":      true,
	"(reflect.Value).IsValid":   true,
	"reflect.ValueOf":           true,
	"reflect.TypeOf":            true,
	"builtin.len":               true,
	"(reflect.Type).String":     true,
	"(reflect.Value).Kind":      true,
	"(reflect.Value).Elem":      true,
	"(reflect.Value).Field":     true,
	"(reflect.Value).Interface": true,
}

// IsPureCallee reports whether the named callee is one of the listed pure functions.
func IsPureCallee(name string) bool { return pureCallees[name] }

// PathEnv, when set, substitutes parameters of a helper by the caller's
// argument values while rendering paths (virtual inlining, one level).
var PathEnv map[*ssa.Parameter]ssa.Value

// Path renders an SSA value as a flow-insensitive access path. Two values with
// equal paths denote the same storage location or the same pure computation.
// Loads are identified with the location they read (licensed by rule IMMUT for
// the label fields the rules compare).
func Path(v ssa.Value) string {
	return pathDepth(v, 0)
}

func pathDepth(v ssa.Value, d int) string {
	if d > 12 {
		return fmt.Sprintf("deep@%p", v)
	}
	switch x := v.(type) {
	case nil:
		return "<nil>"
	case *ssa.Parameter:
		if sub, ok := PathEnv[x]; ok && sub != nil {
			return pathDepth(sub, d+1)
		}
		for i, p := range x.Parent().Params {
			if p == x {
				return fmt.Sprintf("param%d", i)
			}
		}
		return "param?"
	case *ssa.FreeVar:
		for i, p := range x.Parent().FreeVars {
			if p == x {
				return fmt.Sprintf("free%d", i)
			}
		}
		return "free?"
	case *ssa.Global:
		return "global:" + x.Name()
	case *ssa.Const:
		if x.Value == nil {
			return "nil"
		}
		return "const:" + x.Value.ExactString()
	case *ssa.Function:
		return "func:" + x.String()
	case *ssa.Builtin:
		return "builtin:" + x.Name()
	case *ssa.MakeInterface:
		return pathDepth(x.X, d+1)
	case *ssa.ChangeType:
		return pathDepth(x.X, d+1)
	case *ssa.ChangeInterface:
		return pathDepth(x.X, d+1)
	case *ssa.Convert:
		return "conv(" + pathDepth(x.X, d+1) + ")"
	case *ssa.Alloc:
		if s := SingleStore(x); s != nil && !x.Heap {
			return pathDepth(s, d+1)
		}
		return fmt.Sprintf("alloc@%s#%d", x.Parent().Name(), allocIndex(x))
	case *ssa.UnOp:
		switch x.Op {
		case token.MUL:
			switch a := x.X.(type) {
			case *ssa.FieldAddr:
				return pathDepth(a.X, d+1) + "." + fieldName(a.X.Type(), a.Field)
			case *ssa.IndexAddr:
				return pathDepth(a.X, d+1) + "[" + pathDepth(a.Index, d+1) + "]"
			case *ssa.Alloc:
				if s := SingleStore(a); s != nil {
					return pathDepth(s, d+1)
				}
				return "*" + pathDepth(a, d+1)
			case *ssa.FreeVar:
				return "*" + pathDepth(a, d+1)
			case *ssa.Global:
				return "global:" + a.Name()
			}
			return "*" + pathDepth(x.X, d+1)
		case token.NOT:
			return "!" + pathDepth(x.X, d+1)
		}
		return x.Op.String() + pathDepth(x.X, d+1)
	case *ssa.FieldAddr:
		return "&" + pathDepth(x.X, d+1) + "." + fieldName(x.X.Type(), x.Field)
	case *ssa.Field:
		return pathDepth(x.X, d+1) + "." + fieldName(x.X.Type(), x.Field)
	case *ssa.IndexAddr:
		return "&" + pathDepth(x.X, d+1) + "[" + pathDepth(x.Index, d+1) + "]"
	case *ssa.Index:
		return pathDepth(x.X, d+1) + "[" + pathDepth(x.Index, d+1) + "]"
	case *ssa.Lookup:
		return pathDepth(x.X, d+1) + "[" + pathDepth(x.Index, d+1) + "]"
	case *ssa.TypeAssert:
		return "assert<" + types.TypeString(x.AssertedType, shortQual) + ">(" + pathDepth(x.X, d+1) + ")"
	case *ssa.Extract:
		switch t := x.Tuple.(type) {
		case *ssa.TypeAssert:
			if x.Index == 0 {
				return pathDepth(t, d+1)
			}
			return "ok(" + pathDepth(t, d+1) + ")"
		case *ssa.Lookup:
			if x.Index == 0 {
				return pathDepth(t, d+1)
			}
			return "ok(" + pathDepth(t, d+1) + ")"
		case *ssa.Next:
			if r, ok := t.Iter.(*ssa.Range); ok {
				if x.Index == 1 {
					return "rangekey(" + pathDepth(r.X, d+1) + ")@" + fmt.Sprintf("%p", t)
				}
				if x.Index == 2 {
					return "rangeval(" + pathDepth(r.X, d+1) + ")@" + fmt.Sprintf("%p", t)
				}
			}
		}
		return fmt.Sprintf("ext%d(%s)", x.Index, pathDepth(x.Tuple, d+1))
	case *ssa.Call:
		if fr, ok := getterField(x); ok {
			return pathDepth(fr.Base, d+1) + "." + fr.Field
		}
		// while a region binding is active: the result of a private helper with exactly one return (and one result)
		// reads as the value it returns, with the helper's parameters bound to this call's arguments
		if PathEnv != nil && Active != nil {
			if h := x.Common().StaticCallee(); h != nil && h.Signature.Results().Len() == 1 && Active.PrivateHelper(h) {
				if rets := Returns(h); len(rets) == 1 && len(rets[0].Results) == 1 {
					bound := true
					for i, prm := range h.Params {
						if i < len(x.Common().Args) {
							if cur, ok := PathEnv[prm]; !ok || cur != x.Common().Args[i] {
								bound = false
							}
						}
					}
					if bound {
						return pathDepth(rets[0].Results[0], d+1)
					}
				}
			}
		}
		n := CalleeName(x.Common())
		if pureCallees[n] {
			var as []string
			for _, a := range CallArgs(x.Common()) {
				as = append(as, pathDepth(a, d+1))
			}
			return ShortCallee(n) + "(" + strings.Join(as, ",") + ")"
		}
		return fmt.Sprintf("call:%s@%p", ShortCallee(n), x)
	case *ssa.BinOp:
		return "(" + pathDepth(x.X, d+1) + x.Op.String() + pathDepth(x.Y, d+1) + ")"
	case *ssa.Phi:
		return fmt.Sprintf("phi@%p", x)
	case *ssa.Slice:
		return fmt.Sprintf("slice(%s)@%p", pathDepth(x.X, d+1), x)
	case *ssa.MakeClosure:
		return "closure:" + x.Fn.(*ssa.Function).Name()
	}
	return fmt.Sprintf("%T@%p", v, v)
}

func allocIndex(a *ssa.Alloc) int {
	i := 0
	found := -1
	Instrs(a.Parent(), func(in ssa.Instruction) {
		if al, ok := in.(*ssa.Alloc); ok {
			if al == a {
				found = i
			}
			i++
		}
	})
	return found
}

func shortQual(p *types.Package) string {
	if p == nil {
		return ""
	}
	switch p.Path() {
	case ArgPath:
		return ""
	case GraphPath:
		return "graph"
	}
	return p.Name()
}

// TypeStr renders a type with short package qualifiers.
func TypeStr(t types.Type) string {
	return anyRe.ReplaceAllString(types.TypeString(t, shortQual), "interface{}")
}

// `any` is an alias of interface{}: sources that spell it either way render alike
var anyRe = regexp.MustCompile(`\bany\b`)

// StructOf returns the struct type behind t (through pointers and names), with
// the named type if any.
func StructOf(t types.Type) (*types.Struct, *types.Named) {
	for {
		switch u := t.(type) {
		case *types.Pointer:
			t = u.Elem()
			continue
		case *types.Named:
			if s, ok := u.Underlying().(*types.Struct); ok {
				return s, u
			}
			return nil, u
		case *types.Struct:
			return u, nil
		}
		return nil, nil
	}
}

func fieldName(t types.Type, i int) string {
	s, _ := StructOf(t)
	if s == nil || i >= s.NumFields() {
		return fmt.Sprintf("f%d", i)
	}
	return canonFieldName(s, i)
}

// FieldRef describes a field address or field read: owner named type + field name.
type FieldRef struct {
	Owner string // short named type of the struct ("Func", "graph.Graph") or "" for anonymous
	Field string
	Base  ssa.Value // the struct (pointer) value the field is selected from
}

// AsFieldAddr decodes v if it is the address of a struct field.
func AsFieldAddr(v ssa.Value) (FieldRef, bool) {
	fa, ok := v.(*ssa.FieldAddr)
	if !ok {
		return FieldRef{}, false
	}
	s, n := StructOf(fa.X.Type())
	if s == nil {
		return FieldRef{}, false
	}
	owner := ""
	if n != nil {
		owner = namedStr(n)
	}
	return FieldRef{Owner: owner, Field: canonFieldName(s, fa.Field), Base: fa.X}, true
}

// AsFieldLoad decodes v if it is a load of a struct field (through a pointer
// or from a struct value).
func AsFieldLoad(v ssa.Value) (FieldRef, bool) {
	switch x := v.(type) {
	case *ssa.UnOp:
		if x.Op == token.MUL {
			return AsFieldAddr(x.X)
		}
	case *ssa.Field:
		s, n := StructOf(x.X.Type())
		if s == nil {
			return FieldRef{}, false
		}
		owner := ""
		if n != nil {
			owner = namedStr(n)
		}
		return FieldRef{Owner: owner, Field: canonFieldName(s, x.Field), Base: x.X}, true
	case *ssa.Call:
		// a call of a trivial accessor (`func (t *T) F() X { return t.f }`) reads that field of its receiver
		if fr, ok := getterField(x); ok {
			return fr, true
		}
	}
	return FieldRef{}, false
}

// getterField recognises a static call of a function whose whole body is
// `return param.field` and returns the field reference with the call's
// argument as base.
func getterField(c *ssa.Call) (FieldRef, bool) {
	cal := c.Common().StaticCallee()
	if cal == nil || len(cal.Blocks) != 1 || len(cal.Params) == 0 || c.Common().IsInvoke() {
		return FieldRef{}, false
	}
	var real []ssa.Instruction
	for _, in := range cal.Blocks[0].Instrs {
		if _, dbg := in.(*ssa.DebugRef); dbg {
			continue
		}
		real = append(real, in)
	}
	n := len(real)
	if n < 2 || n > 3 {
		return FieldRef{}, false
	}
	ret, ok := real[n-1].(*ssa.Return)
	if !ok || len(ret.Results) != 1 {
		return FieldRef{}, false
	}
	for _, in := range real[:n-1] {
		switch in.(type) {
		case *ssa.FieldAddr, *ssa.UnOp, *ssa.Field:
		default:
			return FieldRef{}, false
		}
	}
	var inner FieldRef
	switch r := ret.Results[0].(type) {
	case *ssa.UnOp:
		if r.Op != token.MUL {
			return FieldRef{}, false
		}
		fr, ok := AsFieldAddr(r.X)
		if !ok {
			return FieldRef{}, false
		}
		inner = fr
	case *ssa.Field:
		fr, ok := AsFieldLoad(r)
		if !ok {
			return FieldRef{}, false
		}
		inner = fr
	default:
		return FieldRef{}, false
	}
	prm, ok := inner.Base.(*ssa.Parameter)
	if !ok {
		return FieldRef{}, false
	}
	for i, q := range cal.Params {
		if q == prm && i < len(c.Common().Args) {
			return FieldRef{Owner: inner.Owner, Field: inner.Field, Base: c.Common().Args[i]}, true
		}
	}
	return FieldRef{}, false
}

// NamedOf returns the short name of the named (pointer-to-)struct type of t, or "".
func NamedOf(t types.Type) string {
	_, n := StructOf(t)
	if n == nil {
		if nn, ok := t.(*types.Named); ok {
			return namedStr(nn)
		}
		return ""
	}
	return namedStr(n)
}

// namedStr renders a named type, using the canonical name of role-bound unexported types.
func namedStr(n *types.Named) string {
	if c, ok := canonTypeName(n); ok {
		return c
	}
	return TypeStr(n)
}

// ---------------------------------------------------------------------------
// Dominating guards

// Guard is one branch condition known to hold (Pol=true) or not hold (Pol=false)
// whenever control reaches a block.
type Guard struct {
	Cond ssa.Value
	Pol  bool
	At   *ssa.If
}

// Guards returns the branch conditions that dominate block b (§9.1 of DESIGN.md).
func Guards(b *ssa.BasicBlock) []Guard {
	var out []Guard
	x := b
	for {
		d := x.Idom()
		if d == nil {
			break
		}
		if len(d.Instrs) > 0 {
			if iff, ok := d.Instrs[len(d.Instrs)-1].(*ssa.If); ok && len(d.Succs) == 2 {
				t, f := d.Succs[0], d.Succs[1]
				td := t.Dominates(b) && len(t.Preds) == 1
				fd := f.Dominates(b) && len(f.Preds) == 1
				if td && !fd {
					out = append(out, normGuard(Guard{iff.Cond, true, iff})...)
				} else if fd && !td {
					out = append(out, normGuard(Guard{iff.Cond, false, iff})...)
				}
			}
		}
		x = d
	}
	return out
}

// normGuard pushes negations into the polarity.
func normGuard(g Guard) []Guard {
	for {
		if u, ok := g.Cond.(*ssa.UnOp); ok && u.Op == token.NOT {
			g.Cond = u.X
			g.Pol = !g.Pol
			continue
		}
		break
	}
	return []Guard{g}
}

// Lit is a normalised guard literal.
type Lit struct {
	Kind   string // "cmp", "call", "ok", "bool"
	Op     token.Token
	X, Y   ssa.Value // cmp operands
	Callee string    // call
	Args   []ssa.Value
	Of     ssa.Value // "ok": the TypeAssert or Lookup; "bool": the value
	Pol    bool
}

// Lits converts guards into literals. `!=` becomes `==` with flipped polarity.
func Lits(gs []Guard) []Lit {
	var out []Lit
	for _, g := range gs {
		out = append(out, LitOf(g.Cond, g.Pol))
	}
	return out
}

// LitOf normalises one condition.
func LitOf(c ssa.Value, pol bool) Lit {
	for {
		if u, ok := c.(*ssa.UnOp); ok && u.Op == token.NOT {
			c = u.X
			pol = !pol
			continue
		}
		break
	}
	switch x := c.(type) {
	case *ssa.BinOp:
		op := x.Op
		switch op {
		case token.NEQ:
			return Lit{Kind: "cmp", Op: token.EQL, X: x.X, Y: x.Y, Pol: !pol}
		case token.EQL, token.LSS, token.GTR, token.LEQ, token.GEQ:
			return Lit{Kind: "cmp", Op: op, X: x.X, Y: x.Y, Pol: pol}
		}
	case *ssa.Call:
		if _, isGetter := getterField(x); isGetter {
			return Lit{Kind: "bool", Of: c, Pol: pol} // a trivial accessor: the field read itself
		}
		return Lit{Kind: "call", Callee: CalleeName(x.Common()), Args: CallArgs(x.Common()), Of: x, Pol: pol}
	case *ssa.Extract:
		switch t := x.Tuple.(type) {
		case *ssa.TypeAssert:
			if x.Index == 1 {
				return Lit{Kind: "ok", Of: t, Pol: pol}
			}
		case *ssa.Lookup:
			if x.Index == 1 {
				return Lit{Kind: "ok", Of: t, Pol: pol}
			}
		}
	}
	return Lit{Kind: "bool", Of: c, Pol: pol}
}

// String renders a literal for evidence.
func (l Lit) String() string {
	neg := ""
	if !l.Pol {
		neg = "not "
	}
	switch l.Kind {
	case "cmp":
		return fmt.Sprintf("%s%s %s %s", neg, Path(l.X), l.Op, Path(l.Y))
	case "call":
		var as []string
		for _, a := range l.Args {
			as = append(as, Path(a))
		}
		return fmt.Sprintf("%s%s(%s)", neg, ShortCallee(l.Callee), strings.Join(as, ","))
	case "ok":
		return fmt.Sprintf("%sok(%s)", neg, Path(l.Of))
	}
	return neg + Path(l.Of)
}

// LitStrings renders literals, sorted.
func LitStrings(ls []Lit) []string {
	var out []string
	for _, l := range ls {
		out = append(out, l.String())
	}
	sort.Strings(out)
	return out
}

// HasEq reports a guard "a == b" (polarity pol) between the two paths, in either order.
func HasEq(ls []Lit, a, b string, pol bool) bool {
	for _, l := range ls {
		if l.Kind == "cmp" && l.Op == token.EQL && l.Pol == pol {
			x, y := Path(l.X), Path(l.Y)
			if (x == a && y == b) || (x == b && y == a) {
				return true
			}
		}
	}
	return false
}

// ---------------------------------------------------------------------------
// CFG reachability

// Reachable reports whether block to is reachable from block from without
// traversing any edge in cut (pairs of blocks). from==to counts as reachable.
func Reachable(from, to *ssa.BasicBlock, cut map[[2]*ssa.BasicBlock]bool) bool {
	seen := map[*ssa.BasicBlock]bool{from: true}
	work := []*ssa.BasicBlock{from}
	for len(work) > 0 {
		b := work[len(work)-1]
		work = work[:len(work)-1]
		if b == to {
			return true
		}
		for _, s := range b.Succs {
			if cut[[2]*ssa.BasicBlock{b, s}] || seen[s] {
				continue
			}
			seen[s] = true
			work = append(work, s)
		}
	}
	return false
}

// ReachableAvoiding reports whether `to` can be reached from `from` without
// entering any block in avoid (from itself is not tested against avoid).
func ReachableAvoiding(from, to *ssa.BasicBlock, avoid map[*ssa.BasicBlock]bool) bool {
	seen := map[*ssa.BasicBlock]bool{from: true}
	work := []*ssa.BasicBlock{from}
	for len(work) > 0 {
		b := work[len(work)-1]
		work = work[:len(work)-1]
		if b == to {
			return true
		}
		for _, s := range b.Succs {
			if seen[s] || (avoid[s] && s != to) {
				continue
			}
			seen[s] = true
			work = append(work, s)
		}
	}
	return false
}

// InstrIndex is the position of in within its block.
func InstrIndex(in ssa.Instruction) int {
	for i, o := range in.Block().Instrs {
		if o == in {
			return i
		}
	}
	return -1
}

// InstrDominates reports whether a is executed before b on every path reaching b.
func InstrDominates(a, b ssa.Instruction) bool {
	if a.Block() == b.Block() {
		return InstrIndex(a) < InstrIndex(b)
	}
	return a.Block().Dominates(b.Block())
}

// CanFollow reports whether instruction b can execute after instruction a on
// some path (same block later, or block reachable).
func CanFollow(a, b ssa.Instruction) bool {
	if a.Block() == b.Block() && InstrIndex(a) < InstrIndex(b) {
		return true
	}
	for _, s := range a.Block().Succs {
		if Reachable(s, b.Block(), nil) {
			return true
		}
	}
	return false
}

// Returns lists the return instructions of f.
func Returns(f *ssa.Function) []*ssa.Return {
	var out []*ssa.Return
	Instrs(f, func(in ssa.Instruction) {
		if r, ok := in.(*ssa.Return); ok {
			out = append(out, r)
		}
	})
	return out
}

// ReturnOperand resolves result i of a return, looking through the
// defer-spill shape (`*local = v; rundefers; return *local`) and named
// results kept in allocs: it returns the set of values that may be returned.
func ReturnOperand(r *ssa.Return, i int) []ssa.Value {
	v := r.Results[i]
	return resolveLoads(v, r, 0)
}

// resolveLoads expands a load of a local alloc into the values stored to it
// that may reach instruction at (nearest dominating store if there is one in
// the same block or a dominating block, else all stores).
func resolveLoads(v ssa.Value, at ssa.Instruction, d int) []ssa.Value {
	if d > 4 {
		return []ssa.Value{v}
	}
	if u, ok := v.(*ssa.UnOp); ok && u.Op == token.MUL {
		if a, ok := u.X.(*ssa.Alloc); ok {
			if st := NearestDominatingStore(a, u); st != nil {
				return resolveLoads(st.Val, st, d+1)
			}
			var out []ssa.Value
			for _, ref := range *a.Referrers() {
				if st, ok := ref.(*ssa.Store); ok && st.Addr == a {
					out = append(out, resolveLoads(st.Val, st, d+1)...)
				}
			}
			if len(out) > 0 {
				return out
			}
		}
	}
	if p, ok := v.(*ssa.Phi); ok {
		var out []ssa.Value
		for _, e := range p.Edges {
			if e == p {
				continue
			}
			out = append(out, resolveLoads(e, at, d+1)...)
		}
		return out
	}
	return []ssa.Value{v}
}

// NearestDominatingStore returns the last store to alloc a that dominates
// instruction at with no other store to a possibly in between; nil if unknown.
func NearestDominatingStore(a *ssa.Alloc, at ssa.Instruction) *ssa.Store {
	var stores []*ssa.Store
	for _, ref := range *a.Referrers() {
		if st, ok := ref.(*ssa.Store); ok && st.Addr == a {
			stores = append(stores, st)
		}
	}
	var best *ssa.Store
	for _, st := range stores {
		if !InstrDominates(st, at) {
			continue
		}
		if best == nil || InstrDominates(best, st) {
			best = st
		}
	}
	if best == nil {
		return nil
	}
	// any other store that can execute between best and at makes it ambiguous
	for _, st := range stores {
		if st == best {
			continue
		}
		if CanFollow(best, st) && CanFollow(st, at) {
			return nil
		}
	}
	return best
}

// ---------------------------------------------------------------------------
// Roots and freshness

// Root walks an address or value back to the object it lives in: through field
// and index selections, loads, slices and representation changes.
func Root(v ssa.Value) ssa.Value {
	for i := 0; i < 40; i++ {
		switch x := v.(type) {
		case *ssa.FieldAddr:
			v = x.X
		case *ssa.IndexAddr:
			v = x.X
		case *ssa.Field:
			v = x.X
		case *ssa.Index:
			v = x.X
		case *ssa.Slice:
			v = x.X
		case *ssa.UnOp:
			if x.Op != token.MUL {
				return v
			}
			// a load: continue through the location only if it is a field/index
			// selection or a single-assignment local
			switch a := x.X.(type) {
			case *ssa.FieldAddr, *ssa.IndexAddr:
				v = a
			case *ssa.Alloc:
				if s := SingleStore(a); s != nil {
					v = s
				} else {
					return a
				}
			default:
				return v
			}
		case *ssa.ChangeType:
			v = x.X
		case *ssa.MakeInterface:
			v = x.X
		case *ssa.ChangeInterface:
			v = x.X
		case *ssa.Lookup:
			v = x.X
		case *ssa.Extract:
			if l, ok := x.Tuple.(*ssa.Lookup); ok {
				v = l.X
			} else {
				return v
			}
		default:
			return v
		}
	}
	return v
}

// FreshIn reports whether reference value v (pointer, slice, map, or an address
// derived from one) denotes memory created inside the function that contains
// it: a composite literal / new / make, append(nil, …), the result of an
// in-module function all of whose returns are fresh (one-level summary), or a
// reference-typed field of such a fresh local object whose stores in this
// function are all fresh. A local copy of a struct does NOT make the memory
// behind its slice/map/pointer fields fresh.
func (p *Prog) FreshIn(v ssa.Value) bool { return p.freshRef(v, 0, map[ssa.Value]bool{}) }

func (p *Prog) freshRef(v ssa.Value, d int, seen map[ssa.Value]bool) bool {
	if d > 14 || v == nil {
		return false
	}
	if seen[v] {
		return true // cycle through phis: decided by the other edges
	}
	seen[v] = true
	switch x := v.(type) {
	case *ssa.Alloc, *ssa.MakeMap, *ssa.MakeSlice, *ssa.MakeChan:
		return true
	case *ssa.Const:
		return x.Value == nil // nil slice/map/pointer: nothing shared behind it
	case *ssa.Parameter:
		// a parameter of a private helper: fresh when every call site hands in an object that is fresh there (the
		// helper is part of its caller's construction of that object)
		h := x.Parent()
		if !p.PrivateHelper(h) {
			return false
		}
		idx := paramIdx(x)
		sites := p.Callers(h)
		if idx < 0 || len(sites) == 0 {
			return false
		}
		for _, s := range sites {
			as := s.Common().Args
			if idx >= len(as) || !p.freshRef(as[idx], d+1, seen) {
				return false
			}
		}
		return true
	case *ssa.FieldAddr:
		return p.freshRef(x.X, d+1, seen)
	case *ssa.IndexAddr:
		return p.freshRef(x.X, d+1, seen)
	case *ssa.Slice:
		return p.freshRef(x.X, d+1, seen)
	case *ssa.ChangeType:
		return p.freshRef(x.X, d+1, seen)
	case *ssa.MakeInterface:
		return p.freshRef(x.X, d+1, seen)
	case *ssa.ChangeInterface:
		return p.freshRef(x.X, d+1, seen)
	case *ssa.Convert:
		return p.freshRef(x.X, d+1, seen)
	case *ssa.Phi:
		for _, e := range x.Edges {
			if !p.freshRef(e, d+1, seen) {
				return false
			}
		}
		return true
	case *ssa.Call:
		n := CalleeName(x.Common())
		if n == "builtin.append" {
			return p.freshRef(x.Common().Args[0], d+1, seen)
		}
		// library copies: a new backing array / a new map (shallow: the elements are the same values)
		if pk, fn := StdCallee(x.Common().StaticCallee()); (pk == "slices" && (fn == "Clone" || fn == "Concat")) || (pk == "maps" && fn == "Clone") {
			return true
		}
		// slices.Grow / slices.Clip hand back the slice they were given (Grow: or a fresh, larger copy of it)
		if pk, fn := StdCallee(x.Common().StaticCallee()); pk == "slices" && (fn == "Grow" || fn == "Clip") && len(x.Common().Args) >= 1 {
			return p.freshRef(x.Common().Args[0], d+1, seen)
		}
		return p.freshResult(x.Common(), 0, d, seen)
	case *ssa.Extract:
		if c, ok := x.Tuple.(*ssa.Call); ok {
			return p.freshResult(c.Common(), x.Index, d, seen)
		}
		return false
	case *ssa.UnOp:
		if x.Op != token.MUL {
			return false
		}
		switch loc := x.X.(type) {
		case *ssa.Alloc:
			// a local variable holding a reference
			if st := NearestDominatingStore(loc, x); st != nil {
				return p.freshRef(st.Val, d+1, seen)
			}
			n := 0
			for _, ref := range *loc.Referrers() {
				if st, ok := ref.(*ssa.Store); ok && st.Addr == loc {
					n++
					if !p.freshRef(st.Val, d+1, seen) {
						return false
					}
				}
			}
			return n > 0
		case *ssa.FieldAddr:
			return p.freshFieldLoad(loc, x, d, seen)
		}
		return false
	}
	return false
}

// freshFieldLoad decides a load of reference-typed field fa (of a local object).
func (p *Prog) freshFieldLoad(fa *ssa.FieldAddr, at ssa.Instruction, d int, seen map[ssa.Value]bool) bool {
	// the containing object must itself be a local allocation of this function
	base := fa.X
	var al *ssa.Alloc
	for i := 0; i < 8 && al == nil; i++ {
		switch b := base.(type) {
		case *ssa.Alloc:
			al = b
		case *ssa.FieldAddr:
			base = b.X
		default:
			// pointer obtained from elsewhere: is it a fresh object (e.g. result of a constructor)?
			if !p.freshRef(base, d+1, seen) {
				return false
			}
			// fresh object built by a callee: its fields were produced for it
			return true
		}
	}
	if al == nil {
		return false
	}
	// stores to the same field of the same local object
	var stores []*ssa.Store
	whole := false
	for _, ref := range *al.Referrers() {
		switch r := ref.(type) {
		case *ssa.Store:
			if r.Addr == ssa.Value(al) {
				// whole-struct assignment: contents come from elsewhere unless a fresh literal
				if !p.freshWholeValue(r.Val, d, seen) {
					whole = true
				}
			}
		case *ssa.FieldAddr:
			if r.Field == fa.Field && sameFieldPath(r, fa) {
				for _, r2 := range *r.Referrers() {
					if st, ok := r2.(*ssa.Store); ok && st.Addr == ssa.Value(r) {
						stores = append(stores, st)
					}
				}
			}
		}
	}
	// nearest dominating field store decides
	var best *ssa.Store
	for _, st := range stores {
		if InstrDominates(st, at) && (best == nil || InstrDominates(best, st)) {
			best = st
		}
	}
	if best != nil {
		amb := false
		for _, st := range stores {
			if st != best && CanFollow(best, st) && CanFollow(st, at) {
				amb = true
			}
		}
		if !amb {
			return p.freshRef(best.Val, d+1, seen)
		}
	}
	if whole {
		return false
	}
	for _, st := range stores {
		if !p.freshRef(st.Val, d+1, seen) {
			return false
		}
	}
	return true
}

func sameFieldPath(a, b *ssa.FieldAddr) bool {
	return Path(a) == Path(b)
}

// freshWholeValue: a struct value assigned as a whole is "fresh" only if it is
// the zero value or loaded from another fresh local literal.
func (p *Prog) freshWholeValue(v ssa.Value, d int, seen map[ssa.Value]bool) bool {
	switch x := v.(type) {
	case *ssa.Const:
		return true
	case *ssa.UnOp:
		if a, ok := x.X.(*ssa.Alloc); ok && x.Op == token.MUL {
			for _, ref := range *a.Referrers() {
				if st, ok := ref.(*ssa.Store); ok && st.Addr == ssa.Value(a) {
					if !p.freshWholeValue(st.Val, d+1, seen) {
						return false
					}
				}
			}
			return true
		}
	}
	return false
}

// freshResult: result idx of an in-module call is fresh if every return of the callee returns a fresh (or nil) value there.
func (p *Prog) freshResult(cc *ssa.CallCommon, idx int, d int, seen map[ssa.Value]bool) bool {
	cal := cc.StaticCallee()
	if cal == nil || !p.InTarget(cal) || cal.Blocks == nil || d > 9 {
		return false
	}
	for _, ret := range Returns(cal) {
		if idx >= len(ret.Results) {
			return false
		}
		for _, rv := range ReturnOperand(ret, idx) {
			sub := map[ssa.Value]bool{}
			dd := d + 2
			if p.PrivateHelper(cal) {
				// a step of the caller: one analysis across the boundary (accumulators threaded through helpers)
				sub, dd = seen, d+1
			}
			if !p.freshRef(rv, dd, sub) {
				return false
			}
		}
	}
	return true
}

// ---------------------------------------------------------------------------
// Def-use closures

// FlowsTo reports whether value src can flow (through phis, conversions,
// boxing, extraction, slicing, field selection of the value itself) into dst.
func FlowsTo(src, dst ssa.Value) bool {
	seen := map[ssa.Value]bool{}
	var walk func(v ssa.Value) bool
	walk = func(v ssa.Value) bool {
		if v == src {
			return true
		}
		if v == nil || seen[v] {
			return false
		}
		seen[v] = true
		switch x := v.(type) {
		case *ssa.Phi:
			for _, e := range x.Edges {
				if walk(e) {
					return true
				}
			}
		case *ssa.MakeInterface:
			return walk(x.X)
		case *ssa.ChangeType:
			return walk(x.X)
		case *ssa.ChangeInterface:
			return walk(x.X)
		case *ssa.Convert:
			return walk(x.X)
		case *ssa.Extract:
			return walk(x.Tuple)
		case *ssa.TypeAssert:
			return walk(x.X)
		case *ssa.Slice:
			return walk(x.X)
		case *ssa.UnOp:
			if x.Op == token.MUL {
				if a, ok := x.X.(*ssa.Alloc); ok {
					for _, ref := range *a.Referrers() {
						if st, ok := ref.(*ssa.Store); ok && st.Addr == a && walk(st.Val) {
							return true
						}
					}
				}
			}
		}
		return false
	}
	return walk(dst)
}

// Sources collects the leaf values that may flow into v (through the same
// transparent operations as FlowsTo).
func Sources(v ssa.Value) []ssa.Value {
	seen := map[ssa.Value]bool{}
	var out []ssa.Value
	var walk func(v ssa.Value)
	walk = func(v ssa.Value) {
		if v == nil || seen[v] {
			return
		}
		seen[v] = true
		switch x := v.(type) {
		case *ssa.Phi:
			for _, e := range x.Edges {
				walk(e)
			}
		case *ssa.MakeInterface:
			walk(x.X)
		case *ssa.ChangeType:
			walk(x.X)
		case *ssa.ChangeInterface:
			walk(x.X)
		case *ssa.UnOp:
			if x.Op == token.MUL {
				if a, ok := x.X.(*ssa.Alloc); ok {
					n := 0
					for _, ref := range *a.Referrers() {
						if st, ok := ref.(*ssa.Store); ok && st.Addr == a {
							walk(st.Val)
							n++
						}
					}
					if n > 0 {
						return
					}
				}
			}
			out = append(out, v)
		default:
			out = append(out, v)
		}
	}
	walk(v)
	return out
}

// Users returns the transitive users of v through transparent operations
// (phi, boxing, conversions, extraction), i.e. every instruction that consumes
// v or one of its transparent derivatives.
func Users(v ssa.Value) []ssa.Instruction {
	seen := map[ssa.Value]bool{}
	var out []ssa.Instruction
	var walk func(v ssa.Value)
	walk = func(v ssa.Value) {
		if v == nil || seen[v] {
			return
		}
		seen[v] = true
		refs := v.Referrers()
		if refs == nil {
			return
		}
		for _, r := range *refs {
			switch x := r.(type) {
			case *ssa.Phi:
				walk(x)
			case *ssa.MakeInterface:
				walk(x)
			case *ssa.ChangeType:
				walk(x)
			case *ssa.ChangeInterface:
				walk(x)
			case *ssa.Extract:
				walk(x)
			case *ssa.Store:
				out = append(out, r)
				if a, ok := x.Addr.(*ssa.Alloc); ok && x.Val == v {
					// spilled local: follow loads of it
					for _, ar := range *a.Referrers() {
						if u, ok := ar.(*ssa.UnOp); ok && u.Op == token.MUL {
							walk(u)
						}
					}
				}
			default:
				out = append(out, r)
			}
		}
	}
	walk(v)
	return out
}

// Binding resolves a free variable of a closure to the value bound at the
// MakeClosure site in the enclosing function (usually a heap Alloc).
func (p *Prog) Binding(fv *ssa.FreeVar) ssa.Value {
	f := fv.Parent()
	mc := p.ClosureSite(f)
	if mc == nil {
		return nil
	}
	for i, v := range f.FreeVars {
		if v == fv && i < len(mc.Bindings) {
			return mc.Bindings[i]
		}
	}
	return nil
}

// DerefFree resolves a load `*freevar` inside a closure to the single value
// stored into the captured variable in the enclosing function, if unique.
func (p *Prog) DerefFree(v ssa.Value) ssa.Value {
	u, ok := v.(*ssa.UnOp)
	if !ok || u.Op != token.MUL {
		return nil
	}
	fv, ok := u.X.(*ssa.FreeVar)
	if !ok {
		return nil
	}
	b := p.Binding(fv)
	if a, ok := b.(*ssa.Alloc); ok {
		return SingleStore(a)
	}
	return nil
}

// IsLoopBound reports whether a guard literal is merely a loop condition or a
// loop-exit condition (range exhausted, index bound), i.e. not a filter on the
// element being processed.
func IsLoopBound(l Lit) bool {
	switch l.Kind {
	case "bool":
		if e, ok := l.Of.(*ssa.Extract); ok && e.Index == 0 {
			if _, ok := e.Tuple.(*ssa.Next); ok {
				return true
			}
		}
	case "cmp":
		if l.Op == token.LSS || l.Op == token.LEQ || l.Op == token.GTR || l.Op == token.GEQ {
			// index compared with a length
			isIdx := func(v ssa.Value) bool {
				switch x := v.(type) {
				case *ssa.Phi:
					return true
				case *ssa.BinOp:
					_, ok := x.X.(*ssa.Phi)
					return ok && x.Op == token.ADD
				}
				return false
			}
			return isIdx(l.X) || isIdx(l.Y)
		}
	}
	return false
}

// PositiveOrder rewrites a negated order comparison as the complementary positive one: !(a >= b) is a < b, and so on.
// Other literals are returned unchanged.
func PositiveOrder(l Lit) Lit {
	if l.Kind != "cmp" || l.Pol {
		return l
	}
	switch l.Op {
	case token.LSS:
		l.Op, l.Pol = token.GEQ, true
	case token.LEQ:
		l.Op, l.Pol = token.GTR, true
	case token.GTR:
		l.Op, l.Pol = token.LEQ, true
	case token.GEQ:
		l.Op, l.Pol = token.LSS, true
	}
	return l
}

// LitsInter returns the guard literals of block b plus, when b's function is an
// in-target helper with exactly one static call site, the literals guarding that
// call site (one level up). Extracting a guarded block into a helper therefore
// keeps the outer guards visible.
func (p *Prog) LitsInter(b *ssa.BasicBlock) []Lit {
	out := Lits(Guards(b))
	f := b.Parent()
	if f == nil {
		return out
	}
	sites := p.Callers(f)
	if len(sites) == 1 && f.Parent() == nil {
		out = append(out, Lits(Guards(sites[0].Block()))...)
	}
	return out
}

// LitImpliesGreater reports whether literal l states X > k for its left operand X
// (accepting the equivalent forms X > k, !(X <= k), X >= k+1, !(X < k+1)).
func LitImpliesGreater(l Lit, k int64) bool {
	if l.Kind != "cmp" {
		return false
	}
	c, ok := ConstInt(l.Y)
	if !ok {
		return false
	}
	if k == 0 && c == 0 && l.Op == token.EQL && !l.Pol {
		if cl, ok := l.X.(*ssa.Call); ok && CalleeName(cl.Common()) == "builtin.len" {
			return true // a length that is not zero is positive
		}
	}
	switch {
	case l.Op == token.GTR && l.Pol && c == k:
		return true
	case l.Op == token.LEQ && !l.Pol && c == k:
		return true
	case l.Op == token.GEQ && l.Pol && c == k+1:
		return true
	case l.Op == token.LSS && !l.Pol && c == k+1:
		return true
	}
	return false
}

// ---------------------------------------------------------------------------
// Boolean helper summaries

// BoolCase is one way a boolean-returning function produces its result: the
// literals known to hold on that path and the value returned (a constant or
// a condition).
type BoolCase struct {
	Lits []Lit
	Val  ssa.Value
}

// BoolCases enumerates the cases of a function with a single boolean result
// (phi nodes of short-circuit operators are expanded two levels).
func BoolCases(f *ssa.Function) []BoolCase { return BoolCasesAt(f, -1) }

// BoolCasesAt is BoolCases for the boolean result at index idx of a function
// with several results (-1: the single result).
func BoolCasesAt(f *ssa.Function, idx int) []BoolCase {
	var out []BoolCase
	var expand func(v ssa.Value, lits []Lit, d int)
	expand = func(v ssa.Value, lits []Lit, d int) {
		ph, ok := v.(*ssa.Phi)
		if !ok || d > 2 {
			out = append(out, BoolCase{Lits: lits, Val: v})
			return
		}
		b := ph.Block()
		for i, e := range ph.Edges {
			pred := b.Preds[i]
			ls := append([]Lit{}, Lits(Guards(pred))...)
			if n := len(pred.Instrs); n > 0 {
				if iff, ok := pred.Instrs[n-1].(*ssa.If); ok && len(pred.Succs) == 2 && pred.Succs[0] != pred.Succs[1] {
					ls = append(ls, LitOf(iff.Cond, pred.Succs[0] == b))
				}
			}
			expand(e, ls, d+1)
		}
	}
	for _, r := range Returns(f) {
		i := idx
		if i < 0 {
			if len(r.Results) != 1 {
				return nil
			}
			i = 0
		}
		if i >= len(r.Results) {
			return nil
		}
		expand(r.Results[i], Lits(Guards(r.Block())), 0)
	}
	return out
}

// ExpandLits replaces every literal that tests the boolean result of a private
// helper (`if helper(x)`, `v, ok := helper(x); if ok`) by the literals that
// provably hold inside the helper whenever it produces that result (the
// intersection over its feasible cases). Those literals are expressed over
// the helper's own values. Literals nothing is known about are kept.
func (p *Prog) ExpandLits(ls []Lit) []Lit { return p.expandLits(ls, false) }

// ExpandLitsKeep is ExpandLits that also keeps the expanded literal itself.
func (p *Prog) ExpandLitsKeep(ls []Lit) []Lit { return p.expandLits(ls, true) }

func (p *Prog) expandLits(ls []Lit, keep bool) []Lit {
	var out []Lit
	for _, l := range ls {
		// `helper(...) == nil` / `_, err := helper(...); err != nil`: the literals common to the returns of the private
		// helper that can produce that outcome
		if l.Kind == "cmp" && l.Op == token.EQL && (IsNilConst(l.X) || IsNilConst(l.Y)) {
			v := l.X
			if IsNilConst(v) {
				v = l.Y
			}
			if more, ok := p.nilOutcomeLits(v, l.Pol); ok {
				out = append(out, l)
				out = append(out, more...)
				continue
			}
		}
		var cl *ssa.Call
		idx := -1
		switch l.Kind {
		case "call":
			cl, _ = l.Of.(*ssa.Call)
		case "bool":
			switch x := l.Of.(type) {
			case *ssa.Extract:
				cl, _ = x.Tuple.(*ssa.Call)
				idx = x.Index
			case *ssa.Call:
				cl = x
			}
		}
		if cl == nil {
			out = append(out, l)
			continue
		}
		if _, isGetter := getterField(cl); isGetter {
			out = append(out, l) // a trivial accessor already reads as the field itself
			continue
		}
		h := cl.Common().StaticCallee()
		if !p.PrivateHelper(h) {
			out = append(out, l)
			continue
		}
		cases := BoolCasesAt(h, idx)
		var common map[string]Lit
		n := 0
		for _, c := range cases {
			k, isC := ConstBool(c.Val)
			if isC && k != l.Pol {
				continue
			}
			m := map[string]Lit{}
			for _, x := range p.ExpandLits(c.Lits) {
				m[x.String()] = x
			}
			if !isC {
				for _, x := range p.ExpandLits([]Lit{LitOf(c.Val, l.Pol)}) {
					m[x.String()] = x
				}
			}
			if n == 0 {
				common = m
			} else {
				for key := range common {
					if _, ok := m[key]; !ok {
						delete(common, key)
					}
				}
			}
			n++
		}
		if n == 0 {
			out = append(out, l)
			continue
		}
		if keep {
			out = append(out, l)
		}
		var keys []string
		for key := range common {
			keys = append(keys, key)
		}
		sort.Strings(keys)
		for _, key := range keys {
			out = append(out, common[key])
		}
	}
	return out
}

// ConstBool reports a boolean constant.
func ConstBool(v ssa.Value) (bool, bool) {
	if c, ok := v.(*ssa.Const); ok && c.Value != nil && c.Value.Kind() == constant.Bool {
		return constant.BoolVal(c.Value), true
	}
	return false, false
}

// HelperImplies reports whether "h returns pol" implies that some literal
// accepted by ok holds (h is a boolean helper; ok sees literals over h's own
// parameters).
func HelperImplies(h *ssa.Function, pol bool, ok func(Lit) bool) bool {
	cases := BoolCases(h)
	if len(cases) == 0 {
		return false
	}
	for _, c := range cases {
		if k, isC := ConstBool(c.Val); isC && k != pol {
			continue
		}
		good := false
		for _, l := range c.Lits {
			if ok(l) {
				good = true
			}
		}
		if _, isC := ConstBool(c.Val); !isC && ok(LitOf(c.Val, pol)) {
			good = true
		}
		if !good {
			return false
		}
	}
	return true
}

// knownNonNil: v cannot be nil where return r executes.
func knownNonNil(v ssa.Value, r *ssa.Return) bool {
	switch v.(type) {
	case *ssa.Alloc, *ssa.MakeClosure, *ssa.MakeMap, *ssa.MakeSlice, *ssa.MakeChan, *ssa.FieldAddr, *ssa.IndexAddr, *ssa.Function:
		return true
	case *ssa.MakeInterface:
		return true
	}
	for _, l := range Lits(Guards(r.Block())) {
		if l.Kind == "cmp" && l.Op == token.EQL && !l.Pol {
			if (l.X == v && IsNilConst(l.Y)) || (l.Y == v && IsNilConst(l.X)) {
				return true
			}
		}
	}
	return false
}

// nilOutcomeLits: v is the (idx-th) result of a call of a private helper; wantNil selects the outcome. Returns the
// literals (over the helper's own values, recursively expanded) that hold on every return of the helper that can
// produce that outcome.
func (p *Prog) nilOutcomeLits(v ssa.Value, wantNil bool) ([]Lit, bool) {
	var cl *ssa.Call
	idx := 0
	switch x := v.(type) {
	case *ssa.Call:
		cl = x
	case *ssa.Extract:
		cl, _ = x.Tuple.(*ssa.Call)
		idx = x.Index
	}
	if cl == nil {
		return nil, false
	}
	h := cl.Common().StaticCallee()
	if !p.PrivateHelper(h) {
		return nil, false
	}
	var common map[string]Lit
	n := 0
	for _, r := range Returns(h) {
		ops := ReturnOperand(r, idx)
		if len(ops) == 0 {
			return nil, false
		}
		feasible := false
		if idx < len(r.Results) && knownNonNil(r.Results[idx], r) {
			// the returned value itself is guarded non-nil here, whatever flows into it
			if wantNil {
				continue
			}
			ops = []ssa.Value{r.Results[idx]}
		}
		for _, o := range ops {
			switch {
			case IsNilConst(o):
				if wantNil {
					feasible = true
				}
			case knownNonNil(o, r):
				if !wantNil {
					feasible = true
				}
			default:
				feasible = true
			}
		}
		if !feasible {
			continue
		}
		m := map[string]Lit{}
		for _, x := range p.ExpandLitsKeep(Lits(Guards(r.Block()))) {
			m[x.String()] = x
		}
		if n == 0 {
			common = m
		} else {
			for k := range common {
				if _, ok := m[k]; !ok {
					delete(common, k)
				}
			}
		}
		n++
	}
	if n == 0 {
		return nil, false
	}
	var keys []string
	for k := range common {
		keys = append(keys, k)
	}
	sort.Strings(keys)
	var out []Lit
	for _, k := range keys {
		out = append(out, common[k])
	}
	return out, true
}

// MemberLit decodes a set-membership literal: `_, ok := M[k]` (ok / not ok) on any map used as a set, or the
// value form `M[k]` / `!M[k]` on a map[K]bool (a set whose members are stored as true). Returns the lookup and
// whether the literal asserts that k is a member.
func MemberLit(l Lit) (*ssa.Lookup, bool, bool) {
	switch l.Kind {
	case "ok":
		if lk, ok := l.Of.(*ssa.Lookup); ok {
			return lk, l.Pol, true
		}
	case "bool":
		var lk *ssa.Lookup
		switch x := l.Of.(type) {
		case *ssa.Lookup:
			if !x.CommaOk {
				lk = x
			}
		case *ssa.Extract:
			if t, ok := x.Tuple.(*ssa.Lookup); ok && x.Index == 0 {
				lk = t
			}
		}
		if lk != nil {
			if mt, ok := lk.X.Type().Underlying().(*types.Map); ok {
				if b, ok := mt.Elem().Underlying().(*types.Basic); ok && b.Kind() == types.Bool {
					return lk, l.Pol, true
				}
			}
		}
	}
	return nil, false, false
}

// SetInsert reports whether a map update inserts its key into a set: any update of a non-bool-valued map, or
// storing the constant true into a map[K]bool (storing false would remove the key from the set MemberLit reads).
func SetInsert(mu *ssa.MapUpdate) bool {
	if mt, ok := mu.Map.Type().Underlying().(*types.Map); ok {
		if b, ok := mt.Elem().Underlying().(*types.Basic); ok && b.Kind() == types.Bool {
			k, isC := ConstBool(mu.Value)
			return isC && k
		}
	}
	return true
}

// StdCallee names a callee from the standard library by package path and
// function name; an instantiation of a generic function (slices.Reverse[[]T,T])
// is named after the generic function.
func StdCallee(f *ssa.Function) (pkg, name string) {
	if f == nil {
		return "", ""
	}
	if o := f.Origin(); o != nil {
		f = o
	}
	if f.Pkg == nil || f.Pkg.Pkg == nil {
		if f.Object() != nil && f.Object().Pkg() != nil {
			return f.Object().Pkg().Path(), f.Object().Name()
		}
		return "", ""
	}
	return f.Pkg.Pkg.Path(), f.Name()
}
