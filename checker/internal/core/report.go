package core

import (
	"crypto/sha1"
	"encoding/hex"
	"encoding/json"
	"fmt"
	"os"
	"path/filepath"
	"sort"
	"strings"
)

// Verdicts of an obligation.
const (
	OK        = "discharged"
	Violated  = "violated"
	Undecided = "undecided" // the construct could not be classified: reported like a violation (fail closed)
)

// Obligation is one statically decided proof obligation.
type Obligation struct {
	Rule      string   `json:"rule"`      // e.g. EDGE-T
	Key       string   `json:"key"`       // stable semantic key: rule|construct role|descriptor (no line numbers)
	Construct string   `json:"construct"` // function (role) the obligation is about
	Pos       string   `json:"position"`  // informational only
	Verdict   string   `json:"verdict"`
	Expected  string   `json:"expected,omitempty"`
	Found     string   `json:"found,omitempty"`
	Guards    []string `json:"guards,omitempty"`
}

// Report accumulates obligations of all engines run in this process.
type Report struct {
	Obs   []Obligation
	Notes map[string][]string // rule -> notes (what was analysed)
	Funcs map[string]bool     // functions analysed
	Sites int                 // call sites / instructions inspected
}

func NewReport() *Report {
	return &Report{Notes: map[string][]string{}, Funcs: map[string]bool{}}
}

// Add records an obligation. ok=true discharges it.
func (r *Report) Add(rule, key, construct, pos string, ok bool, expected, found string, guards ...string) {
	v := OK
	if !ok {
		v = Violated
	}
	r.Obs = append(r.Obs, Obligation{Rule: rule, Key: rule + "|" + key, Construct: construct, Pos: pos,
		Verdict: v, Expected: expected, Found: found, Guards: guards})
}

// Undecided records an obligation the checker could not decide (fail closed).
func (r *Report) Undecided(rule, key, construct, pos, why string) {
	r.Obs = append(r.Obs, Obligation{Rule: rule, Key: rule + "|" + key, Construct: construct, Pos: pos,
		Verdict: Undecided, Expected: "construct must be decidable", Found: why})
}

func (r *Report) Note(rule, format string, a ...interface{}) {
	r.Notes[rule] = append(r.Notes[rule], fmt.Sprintf(format, a...))
}

func (r *Report) Func(names ...string) {
	for _, n := range names {
		r.Funcs[n] = true
	}
}

// ---------------------------------------------------------------------------
// Known findings (read-only at run time)

type Finding struct {
	Property string `json:"property"`
	Rule     string `json:"rule"`
	Key      string `json:"key"`
	What     string `json:"what"`
	Witness  string `json:"witness,omitempty"`
}

type KnownFile struct {
	Findings []Finding `json:"findings"`
	Fixed    []string  `json:"fixed"`
}

func LoadKnown(path string) (*KnownFile, error) {
	var k KnownFile
	b, err := os.ReadFile(path)
	if err != nil {
		if os.IsNotExist(err) {
			return &k, nil
		}
		return nil, err
	}
	if err := json.Unmarshal(b, &k); err != nil {
		return nil, err
	}
	return &k, nil
}

func (k *KnownFile) Match(prop string, o Obligation) *Finding {
	for i := range k.Findings {
		f := &k.Findings[i]
		if f.Property == prop && f.Key == o.Key {
			return f
		}
	}
	return nil
}

// ---------------------------------------------------------------------------
// Evidence and replay files

type Evidence struct {
	PropertyID  string                 `json:"property_id"`
	Tier        string                 `json:"tier"`
	Seed        int                    `json:"seed"`
	Level       string                 `json:"level"`
	Coverage    map[string]interface{} `json:"coverage"`
	Assumptions []string               `json:"assumptions"`
	WallS       float64                `json:"wall_s"`
	Violations  int                    `json:"violations"`
}

func KeyHash(key string) string {
	h := sha1.Sum([]byte(key))
	return hex.EncodeToString(h[:])[:10]
}

// WriteJSON writes v to path atomically.
func WriteJSON(path string, v interface{}) error {
	if err := os.MkdirAll(filepath.Dir(path), 0o755); err != nil {
		return err
	}
	b, err := json.MarshalIndent(v, "", " ")
	if err != nil {
		return err
	}
	tmp := path + ".tmp"
	if err := os.WriteFile(tmp, append(b, '\n'), 0o644); err != nil {
		return err
	}
	return os.Rename(tmp, path)
}

// SortObs orders obligations deterministically.
func SortObs(obs []Obligation) {
	sort.SliceStable(obs, func(i, j int) bool {
		if obs[i].Rule != obs[j].Rule {
			return obs[i].Rule < obs[j].Rule
		}
		return obs[i].Key < obs[j].Key
	})
}

// RuleMatches reports whether obligation rule id belongs to a rule family
// listed for a property ("EDGE" matches "EDGE-T"; "EDGE-T" matches only itself).
func RuleMatches(rule string, families []string) bool {
	for _, f := range families {
		if rule == f || strings.HasPrefix(rule, f+"-") {
			return true
		}
	}
	return false
}
