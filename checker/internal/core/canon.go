package core

import (
	"go/types"

	"golang.org/x/tools/go/ssa"
)

// Canonical names. Rules refer to unexported struct types and fields by the
// names they have in the reference tree ("callState.Value", "Result.out", …);
// these names are bound to the actual declarations by ROLE (field type, the
// exported accessor or option that touches the field), so that renaming an
// unexported type or field does not change what a rule sees.

var (
	typeCanon  = map[*types.TypeName]string{}
	fieldCanon = map[*types.Var]string{}
)

func canonTypeName(n *types.Named) (string, bool) {
	s, ok := typeCanon[n.Obj()]
	return s, ok
}

func structFields(t types.Type) (*types.Struct, *types.Named) { return StructOf(t) }

func (p *Prog) buildCanon() {
	typeCanon = map[*types.TypeName]string{}
	fieldCanon = map[*types.Var]string{}
	scope := p.Arg.Pkg.Scope()
	named := func(name string) *types.Named {
		if o := scope.Lookup(name); o != nil {
			if n, ok := o.Type().(*types.Named); ok {
				return n
			}
		}
		return nil
	}
	ts := TypeStr
	byType := func(n *types.Named, want map[string]string) {
		s, _ := n.Underlying().(*types.Struct)
		if s == nil {
			return
		}
		count := map[string]int{}
		for i := 0; i < s.NumFields(); i++ {
			count[ts(s.Field(i).Type())]++
		}
		for i := 0; i < s.NumFields(); i++ {
			t := ts(s.Field(i).Type())
			if c, ok := want[t]; ok && count[t] == 1 {
				fieldCanon[s.Field(i)] = c
			}
		}
	}

	// ---- exported, fixed type names
	if n := named("Result"); n != nil {
		byType(n, map[string]string{"[]reflect.Value": "out", "error": "buildErr"})
	}
	if n := named("ValueSet"); n != nil {
		byType(n, map[string]string{"[]*Value": "values", "map[string]*Value": "namedValues", "map[reflect.Type]*Value": "typedValues",
			"reflect.Type": "structType", "uint8": "structPointers", "bool": "isLifted"})
	}
	if n := named("Func"); n != nil {
		byType(n, map[string]string{"reflect.Value": "fn", "bool": "once", "*Result": "onceResult", "Result": "onceResult", "[]Arg": "callOpts", "string": "name"})
		// input / output by the exported accessors
		for acc, canon := range map[string]string{"Input": "input", "Output": "output"} {
			if m := p.Method(p.Arg, "Func", acc); m != nil {
				for _, r := range Returns(m) {
					if len(r.Results) == 1 {
						if ld, ok := r.Results[0].(*ssa.UnOp); ok {
							if fa, ok := ld.X.(*ssa.FieldAddr); ok {
								if s, _ := StructOf(fa.X.Type()); s != nil {
									fieldCanon[s.Field(fa.Field)] = canon
								}
							}
						}
					}
				}
			}
		}
	}
	// ---- valueInternal: the embedded struct of Value; its int field is the struct-field ordinal
	if n := named("Value"); n != nil {
		if s, _ := n.Underlying().(*types.Struct); s != nil {
			for i := 0; i < s.NumFields(); i++ {
				if s.Field(i).Embedded() {
					if vn, ok := s.Field(i).Type().(*types.Named); ok {
						typeCanon[vn.Obj()] = "valueInternal"
						fieldCanon[s.Field(i)] = "valueInternal"
						byType(vn, map[string]string{"int": "index"})
					}
				}
			}
		}
	}
	// ---- argBuilder: the parameter type of an option (Arg)
	if a := named("Arg"); a != nil {
		if sig, ok := a.Underlying().(*types.Signature); ok && sig.Params().Len() == 1 {
			if pt, ok := sig.Params().At(0).Type().(*types.Pointer); ok {
				if bn, ok := pt.Elem().(*types.Named); ok {
					typeCanon[bn.Obj()] = "argBuilder"
					byType(bn, map[string]string{
						"map[string]reflect.Value": "named", "map[string]map[string]reflect.Value": "namedSub",
						"map[reflect.Type]reflect.Value": "typed", "map[reflect.Type]map[string]reflect.Value": "typedSub",
						"[]*Func": "convs", "[]ConverterGenFunc": "convGens", "string": "funcName"})
					// bools and filters by the exported option that sets them
					for opt, canon := range map[string]string{"FuncOnce": "funcOnce", "FilterInput": "filterInput", "FilterOutput": "filterOutput", "Logger": "logger", "FuncName": "funcName"} {
						if f := p.Func(p.Arg, opt); f != nil {
							for _, fn := range WithNested(f) {
								Instrs(fn, func(in ssa.Instruction) {
									if st, ok := in.(*ssa.Store); ok {
										if fa, ok := st.Addr.(*ssa.FieldAddr); ok {
											if s, nn := StructOf(fa.X.Type()); s != nil && nn != nil && nn.Obj() == bn.Obj() {
												fieldCanon[s.Field(fa.Field)] = canon
											}
										}
									}
								})
							}
						}
					}
					// the remaining bool is the redefining flag
					if s, _ := bn.Underlying().(*types.Struct); s != nil {
						for i := 0; i < s.NumFields(); i++ {
							if _, done := fieldCanon[s.Field(i)]; !done && types.Identical(s.Field(i).Type(), types.Typ[types.Bool]) {
								fieldCanon[s.Field(i)] = "redefining"
							}
						}
					}
				}
			}
		}
	}
	// ---- callState: the struct that holds the map of recorded input vertices
	for _, name := range scope.Names() {
		n := named(name)
		if n == nil {
			continue
		}
		s, _ := n.Underlying().(*types.Struct)
		if s == nil {
			continue
		}
		has := false
		for i := 0; i < s.NumFields(); i++ {
			if ts(s.Field(i).Type()) == "map[interface{}]graph.Vertex" {
				has = true
			}
		}
		if has && !n.Obj().Exported() {
			typeCanon[n.Obj()] = "callState"
			byType(n, map[string]string{"reflect.Value": "Value", "map[interface{}]graph.Vertex": "InputSet", "map[interface{}]struct{}": "Reaching",
				"map[string]reflect.Value": "NamedValue", "map[reflect.Type]reflect.Value": "TypedValue"})
		}
	}
	// ---- vertex structs (unexported structs with a Hashcode method): value and type fields by type
	for _, name := range scope.Names() {
		n := named(name)
		if n == nil || n.Obj().Exported() {
			continue
		}
		if _, done := typeCanon[n.Obj()]; done {
			continue
		}
		if p.Method(p.Arg, name, "Hashcode") == nil {
			continue
		}
		byType(n, map[string]string{"reflect.Value": "Value", "reflect.Type": "Type"})
	}
}

// CanonField returns the canonical name of field i of struct type t.
func canonFieldName(s *types.Struct, i int) string {
	if c, ok := fieldCanon[s.Field(i)]; ok {
		return c
	}
	return s.Field(i).Name()
}

// CanonFieldName is the canonical (role-bound) name of field i of struct s.
func CanonFieldName(s *types.Struct, i int) string { return canonFieldName(s, i) }
