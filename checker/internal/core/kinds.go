package core

import (
	"fmt"
	"go/token"
	"go/types"
	"sort"

	"golang.org/x/tools/go/ssa"
)

// Kinds names the five vertex struct types of the resolution graph, resolved
// structurally (see DESIGN.md §3): they are the concrete types whose pointers
// are boxed into graph.Vertex and handed to Graph.Add/AddOverwrite.
type Kinds struct {
	Root, Func, Value, Arg, Out string
	All                         []string
}

// Label reports whether kind k carries labels (Type/Subtype).
func (k *Kinds) Label(kind string) bool { return kind == k.Value || kind == k.Arg || kind == k.Out }

// VertexKinds resolves the vertex kinds. It fails (error) rather than guessing.
func (p *Prog) VertexKinds() (*Kinds, error) {
	if p.kinds != nil || p.kindsErr != nil {
		return p.kinds, p.kindsErr
	}
	k, err := p.resolveKinds()
	p.kinds, p.kindsErr = k, err
	return k, err
}

func (p *Prog) resolveKinds() (*Kinds, error) {
	added := map[string]*types.Struct{}
	for _, f := range p.ArgFuncs() {
		for _, c := range Calls(f, GAdd, GAddOverwrite) {
			if len(c.Common().Args) < 2 {
				continue
			}
			for _, t := range p.concreteTypes(c.Common().Args[1], 0) {
				if s, n := StructOf(t); s != nil && n != nil {
					added[TypeStr(n)] = s
				}
			}
		}
	}
	k := &Kinds{}
	for n := range added {
		k.All = append(k.All, n)
	}
	sort.Strings(k.All)
	hasField := func(s *types.Struct, name string) bool {
		for i := 0; i < s.NumFields(); i++ {
			if canonFieldName(s, i) == name {
				return true
			}
		}
		return false
	}
	var typed []string
	for _, n := range k.All {
		s := added[n]
		switch {
		case s.NumFields() == 0:
			if k.Root != "" {
				return nil, fmt.Errorf("two field-less vertex kinds: %s, %s", k.Root, n)
			}
			k.Root = n
		case func() bool {
			for i := 0; i < s.NumFields(); i++ {
				if TypeStr(s.Field(i).Type()) == "*Func" {
					return true
				}
			}
			return false
		}():
			if k.Func != "" {
				return nil, fmt.Errorf("two function vertex kinds: %s, %s", k.Func, n)
			}
			k.Func = n
		case hasField(s, "Type") && hasField(s, "Subtype"):
			typed = append(typed, n)
		default:
			return nil, fmt.Errorf("vertex kind %s has an unrecognised shape", n)
		}
	}
	// the named kind is the label kind whose Hashcode reads Name
	var rest []string
	for _, n := range typed {
		h := p.Method(p.Arg, n, "Hashcode")
		readsName := false
		if h != nil {
			Instrs(h, func(in ssa.Instruction) {
				if fa, ok := in.(*ssa.FieldAddr); ok {
					if fr, ok := AsFieldAddr(fa); ok && fr.Field == "Name" {
						readsName = true
					}
				}
			})
		}
		if readsName {
			if k.Value != "" {
				return nil, fmt.Errorf("two named vertex kinds: %s, %s", k.Value, n)
			}
			k.Value = n
		} else {
			rest = append(rest, n)
		}
	}
	if len(rest) != 2 {
		return nil, fmt.Errorf("expected two type-only vertex kinds, found %v", rest)
	}
	// typed output = the type-only kind that supplied inputs are registered as
	// (the only kinds handed to AddOverwrite are the named value and the typed
	// output); typed argument = the other one. Cross-checked below against the
	// function wiring (func -> typedArg, typedOut -> func) when that is direct.
	for _, f := range p.ArgFuncs() {
		for _, c := range Calls(f, GAddOverwrite) {
			if len(c.Common().Args) < 2 {
				continue
			}
			for _, t := range p.concreteTypes(c.Common().Args[1], 0) {
				if _, n := StructOf(t); n != nil {
					name := TypeStr(n)
					if name == rest[0] || name == rest[1] {
						if k.Out != "" && k.Out != name {
							return nil, fmt.Errorf("both type-only kinds are registered as inputs: %s, %s", k.Out, name)
						}
						k.Out = name
					}
				}
			}
		}
	}
	if k.Out == rest[0] {
		k.Arg = rest[1]
	} else if k.Out == rest[1] {
		k.Arg = rest[0]
	}
	if fb, err := p.Role("funcBuilder"); err == nil {
		for _, c := range Calls(fb, GAddEdge, GAddEdgeW) {
			a := c.Common().Args
			k1 := p.KindOf(a[1])
			k2 := p.KindOf(a[2])
			if len(k1) == 1 && len(k2) == 1 {
				if k1[0] == k.Func && k2[0] == k.Out {
					return nil, fmt.Errorf("function vertex depends on the typed-output kind %s (wiring reversed)", k.Out)
				}
				if k2[0] == k.Func && k1[0] == k.Arg {
					return nil, fmt.Errorf("typed-argument kind %s depends on a function vertex (wiring reversed)", k.Arg)
				}
			}
		}
	}
	if k.Root == "" || k.Func == "" || k.Value == "" || k.Arg == "" || k.Out == "" || k.Arg == k.Out {
		return nil, fmt.Errorf("vertex kinds not all resolved: %+v", *k)
	}
	return k, nil
}

// KindOf infers which vertex struct type(s) an interface-typed vertex value can
// hold, from its construction, type assertions and (for parameters) the
// actual arguments at every call site. "?" means unknown.
func (p *Prog) KindOf(v ssa.Value) []string {
	set := map[string]bool{}
	p.kindOf(v, 0, map[ssa.Value]bool{}, set)
	var out []string
	for k := range set {
		out = append(out, k)
	}
	sort.Strings(out)
	return out
}

func (p *Prog) kindOf(v ssa.Value, d int, seen map[ssa.Value]bool, out map[string]bool) {
	if d > 6 || v == nil || seen[v] {
		if d > 6 {
			out["?"] = true
		}
		return
	}
	seen[v] = true
	named := func(t types.Type) bool {
		if s, n := StructOf(t); s != nil && n != nil {
			if _, isPtr := t.(*types.Pointer); isPtr {
				out[TypeStr(n)] = true
				return true
			}
		}
		return false
	}
	switch x := v.(type) {
	case *ssa.MakeInterface:
		if !named(x.X.Type()) {
			out["?"] = true
		}
	case *ssa.ChangeInterface:
		p.kindOf(x.X, d+1, seen, out)
	case *ssa.ChangeType:
		p.kindOf(x.X, d+1, seen, out)
	case *ssa.Call:
		n := CalleeName(x.Common())
		if n == GAdd || n == GAddOverwrite {
			p.kindOf(x.Common().Args[1], d+1, seen, out)
			return
		}
		// in-module function returning a vertex: union of returned kinds
		if cal := x.Common().StaticCallee(); cal != nil && p.InTarget(cal) && cal.Blocks != nil && cal.Signature.Results().Len() == 1 {
			for _, r := range Returns(cal) {
				for _, rv := range ReturnOperand(r, 0) {
					p.kindOf(rv, d+1, seen, out)
				}
			}
			return
		}
		out["?"] = true
	case *ssa.TypeAssert:
		if !named(x.AssertedType) {
			out["?"] = true
		}
	case *ssa.Extract:
		switch t := x.Tuple.(type) {
		case *ssa.TypeAssert:
			if x.Index == 0 {
				if !named(t.AssertedType) {
					out["?"] = true
				}
				return
			}
		case *ssa.Call:
			if cal := t.Common().StaticCallee(); cal != nil && p.InTarget(cal) && cal.Blocks != nil {
				for _, r := range Returns(cal) {
					if x.Index < len(r.Results) {
						for _, rv := range ReturnOperand(r, x.Index) {
							p.kindOf(rv, d+1, seen, out)
						}
					}
				}
				return
			}
		}
		out["?"] = true
	case *ssa.Parameter:
		f := x.Parent()
		idx := -1
		for i, pp := range f.Params {
			if pp == x {
				idx = i
			}
		}
		cs := p.Callers(f)
		if len(cs) == 0 || idx < 0 {
			out["?"] = true
			return
		}
		for _, c := range cs {
			args := c.Common().Args
			if idx < len(args) {
				p.kindOf(args[idx], d+1, seen, out)
			} else {
				out["?"] = true
			}
		}
	case *ssa.Phi:
		for _, e := range x.Edges {
			p.kindOf(e, d+1, seen, out)
		}
	case *ssa.UnOp:
		if x.Op == token.MUL {
			if a, ok := x.X.(*ssa.Alloc); ok {
				n := 0
				for _, ref := range *a.Referrers() {
					if st, ok := ref.(*ssa.Store); ok && st.Addr == a {
						p.kindOf(st.Val, d+1, seen, out)
						n++
					}
				}
				if n > 0 {
					return
				}
			}
		}
		out["?"] = true
	case *ssa.Const:
		// nil vertex: no kind
	default:
		out["?"] = true
	}
}

// concreteTypes: the static types of the concrete values that flow into interface value v — directly, or through a
// parameter of a private helper / local function literal (what its call sites hand in).
func (p *Prog) concreteTypes(v ssa.Value, d int) []types.Type {
	if d > 4 {
		return nil
	}
	var out []types.Type
	for _, s := range Sources(v) {
		x := Strip(s)
		if _, isIface := x.Type().Underlying().(*types.Interface); !isIface {
			out = append(out, x.Type())
			continue
		}
		if prm, ok := x.(*ssa.Parameter); ok {
			h := prm.Parent()
			if p.helperOrLocal(h) {
				idx := paramIdx(prm)
				for _, site := range p.Callers(h) {
					if as := site.Common().Args; idx >= 0 && idx < len(as) {
						out = append(out, p.concreteTypes(as[idx], d+1)...)
					}
				}
			}
		}
	}
	return out
}

// helperOrLocal: like PrivateHelper but usable while roles are still being resolved (no role exclusion).
func (p *Prog) helperOrLocal(h *ssa.Function) bool {
	if h == nil || !p.InTarget(h) || len(h.Blocks) == 0 {
		return false
	}
	if h.Parent() != nil {
		return p.localClosure(h)
	}
	_, ok := p.helperLike(h)
	return ok
}
