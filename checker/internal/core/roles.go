package core

import (
	"fmt"
	"go/types"
	"sort"

	"golang.org/x/tools/go/ssa"
)

// Roles: internal functions are located by what they do, not by what they are
// called. Exported API names (Call, Convert, Redefine, NewFunc, …) and the
// exported methods of graph.Graph are used as given.

// Method returns the method of a named type of package pkg (pointer or value receiver).
func (p *Prog) Method(pkg *ssa.Package, typ, name string) *ssa.Function {
	m, ok := pkg.Members[typ].(*ssa.Type)
	if !ok {
		return nil
	}
	for _, tt := range []types.Type{m.Type(), types.NewPointer(m.Type())} {
		ms := p.SSA.MethodSets.MethodSet(tt)
		for i := 0; i < ms.Len(); i++ {
			if ms.At(i).Obj().Name() == name {
				if fn := p.SSA.MethodValue(ms.At(i)); fn != nil && fn.Synthetic == "" {
					return fn
				}
			}
		}
	}
	return nil
}

// Func returns a package-level function.
func (p *Prog) Func(pkg *ssa.Package, name string) *ssa.Function {
	f, _ := pkg.Members[name].(*ssa.Function)
	return f
}

// ArgFuncs lists the named and anonymous functions of package argmapper.
func (p *Prog) ArgFuncs() []*ssa.Function {
	var out []*ssa.Function
	for _, f := range p.Funcs {
		if PkgOf(f) == p.Arg {
			out = append(out, f)
		}
	}
	return out
}

// GraphFuncs lists the functions of package internal/graph.
func (p *Prog) GraphFuncs() []*ssa.Function {
	var out []*ssa.Function
	for _, f := range p.Funcs {
		if PkgOf(f) == p.Graph {
			out = append(out, f)
		}
	}
	return out
}

// StaticCallees returns the distinct in-target static callees of f (not nested literals).
func (p *Prog) StaticCallees(f *ssa.Function) []*ssa.Function {
	seen := map[*ssa.Function]bool{}
	var out []*ssa.Function
	for _, c := range Calls(f) {
		if cal := c.Common().StaticCallee(); cal != nil && p.InTarget(cal) && !seen[cal] {
			seen[cal] = true
			out = append(out, cal)
		}
	}
	return out
}

func (p *Prog) callsFn(f, callee *ssa.Function) bool {
	for _, c := range Calls(f) {
		if c.Common().StaticCallee() == callee {
			return true
		}
	}
	return false
}

// Role resolves an internal function by its role. The error explains which
// structural criterion matched nothing (or several things).
func (p *Prog) Role(role string) (*ssa.Function, error) {
	if p.roles == nil {
		p.roles = map[string]*ssa.Function{}
	}
	if f, ok := p.roles[role]; ok {
		if f == nil {
			return nil, fmt.Errorf("role %s unresolved", role)
		}
		return f, nil
	}
	f, err := p.resolveRole(role)
	p.roles[role] = f
	return f, err
}

// MustRole is Role for callers that report the error themselves.
func (p *Prog) MustRole(role string) *ssa.Function {
	f, _ := p.Role(role)
	return f
}

func one(role string, cands []*ssa.Function) (*ssa.Function, error) {
	// de-duplicate
	seen := map[*ssa.Function]bool{}
	var u []*ssa.Function
	for _, c := range cands {
		if !seen[c] {
			seen[c] = true
			u = append(u, c)
		}
	}
	if len(u) == 1 {
		return u[0], nil
	}
	// the characteristic constructs of a role may be spread over helper functions that one function drives (the
	// role function was split into steps): the role is then their lowest common driver
	if len(u) > 1 && Active != nil {
		if f := Active.commonDriver(u); f != nil {
			return f, nil
		}
	}
	var names []string
	for _, c := range u {
		names = append(names, FuncName(c))
	}
	sort.Strings(names)
	return nil, fmt.Errorf("role %s: expected exactly one function, found %d %v", role, len(u), names)
}

// helperLike: an unexported, non-recursive named function that is only called statically, from exactly one
// (outer) function. Returns that caller.
func (p *Prog) helperLike(h *ssa.Function) (*ssa.Function, bool) {
	if h == nil || h.Parent() != nil || !p.InTarget(h) || len(h.Blocks) == 0 || (h.Synthetic != "" && !IsInstance(h)) {
		return nil, false
	}
	if o := h.Object(); o == nil || o.Exported() {
		return nil, false
	}
	var caller *ssa.Function
	for _, s := range p.Callers(h) {
		c := Outer(s.Parent())
		if c == h {
			return nil, false
		}
		if caller != nil && caller != c {
			return nil, false
		}
		caller = c
	}
	if caller == nil {
		return nil, false
	}
	if h.Signature.Recv() != nil && p.invokedNames()[h.Name()] {
		return nil, false
	}
	if p.usedAsValue(h) {
		return nil, false
	}
	return caller, true
}

// commonDriver returns the function from which all of fs are reached through chains of helper-like functions
// (possibly one of fs itself), or nil.
func (p *Prog) commonDriver(fs []*ssa.Function) *ssa.Function {
	chain := func(f *ssa.Function) []*ssa.Function {
		out := []*ssa.Function{f}
		for i := 0; i < 4; i++ {
			c, ok := p.helperLike(out[len(out)-1])
			if !ok {
				break
			}
			out = append(out, c)
		}
		return out
	}
	first := chain(fs[0])
	for _, cand := range first {
		all := true
		for _, f := range fs[1:] {
			found := false
			for _, x := range chain(f) {
				if x == cand {
					found = true
				}
			}
			if !found {
				all = false
			}
		}
		if all {
			return cand
		}
	}
	return nil
}

// RCalls lists the calls made by named function f and by the local function literals it only calls itself.
func (p *Prog) RCalls(f *ssa.Function, names ...string) []ssa.CallInstruction {
	out := Calls(f, names...)
	for _, a := range f.AnonFuncs {
		if p.localClosure(a) {
			out = append(out, Calls(a, names...)...)
		}
	}
	return out
}

func (p *Prog) named(fs []*ssa.Function) []*ssa.Function {
	var out []*ssa.Function
	for _, f := range fs {
		if f.Parent() == nil {
			out = append(out, f)
		}
	}
	return out
}

// FuncFnField returns the name of the reflect.Value field of type Func that
// holds the wrapped function.
func (p *Prog) FuncFnField() string {
	m, ok := p.Arg.Members["Func"].(*ssa.Type)
	if !ok {
		return ""
	}
	s, _ := StructOf(m.Type())
	if s == nil {
		return ""
	}
	name := ""
	for i := 0; i < s.NumFields(); i++ {
		if TypeStr(s.Field(i).Type()) == "reflect.Value" {
			if name != "" {
				return ""
			}
			name = canonFieldName(s, i)
		}
	}
	return name
}

func (p *Prog) resolveRole(role string) (*ssa.Function, error) {
	arg := p.named(p.ArgFuncs())
	switch role {
	case "Call":
		if f := p.Method(p.Arg, "Func", "Call"); f != nil {
			return f, nil
		}
		return nil, fmt.Errorf("exported method (*Func).Call not found")
	case "Redefine":
		if f := p.Method(p.Arg, "Func", "Redefine"); f != nil {
			return f, nil
		}
		return nil, fmt.Errorf("exported method (*Func).Redefine not found")
	case "Convert", "NewFunc", "BuildFunc", "NewValueSet", "Named", "NamedSubtype", "Typed", "TypedSubtype",
		"Converter", "ConverterFunc", "ConverterGen", "FuncOnce", "FilterInput", "FilterOutput", "Logger", "FuncName":
		if f := p.Func(p.Arg, role); f != nil {
			return f, nil
		}
		return nil, fmt.Errorf("exported function %s not found", role)

	case "executor":
		// contains reflect.Value.Call on a value loaded from Func.<fn field>
		fnField := p.FuncFnField()
		var c, callers []*ssa.Function
		for _, f := range arg {
			for _, call := range Calls(f, RVCall) {
				if fr, ok := AsFieldLoad(call.Common().Args[0]); ok && fr.Owner == "Func" && fr.Field == fnField {
					c = append(c, f)
					callers = append(callers, f)
				}
			}
			// … and memoises a Result on the Func (the run-once memo)
			Instrs(f, func(in ssa.Instruction) {
				if st, ok := in.(*ssa.Store); ok {
					if fr, ok := AsFieldAddr(st.Addr); ok && fr.Owner == "Func" && NamedOf(st.Val.Type()) == "Result" && !p.FreshIn(st.Addr) {
						c = append(c, f)
					}
				}
			})
		}
		if f, err := one(role, c); err == nil {
			return f, nil
		}
		// the memo is (also) written somewhere else: the executor is still the function that calls the user's
		// function; the foreign write is for the SHARED/ONCE rules to report, not a reason to lose the role
		return one(role, callers)

	case "resolver":
		// executes converters (calls the executor without being the exported Call); plans paths (shortest-path search)
		ex, err := p.Role("executor")
		if err != nil {
			return nil, err
		}
		call, _ := p.Role("Call")
		var c []*ssa.Function
		for _, f := range arg {
			if f == call || f == ex {
				continue
			}
			// a private step of Call (an unexported `call(builder)` that Call and Convert share) is part of Call
			if call != nil && f.Parent() == nil && f.Object() != nil && !f.Object().Exported() && p.callsFn(call, f) && !p.callsFn(f, f) &&
				f.Signature.Results().Len() == 1 && NamedOf(f.Signature.Results().At(0).Type()) == "Result" && !p.usedAsValue(f) {
				continue
			}
			if p.callsFn(f, ex) {
				c = append(c, f)
			}
			if len(Calls(f, GDijkstra)) > 0 {
				c = append(c, f)
			}
		}
		return one(role, c)

	case "graphBuilder":
		// prunes the graph (Remove); drives the input builder
		var c, drivers []*ssa.Function
		ib, _ := p.Role("inputBuilder")
		for _, f := range arg {
			if len(p.RCalls(f, GRemove)) > 0 {
				c = append(c, f)
			}
			if ib != nil && f != ib && p.callsFn(f, ib) {
				c = append(c, f)
				drivers = append(drivers, f)
			}
		}
		if f, err := one(role, c); err == nil {
			return f, nil
		}
		// some other function removes vertices as well: the graph builder is still the one that drives the input
		// builder; what the other function does to the graph is for the rules to judge
		return one(role, drivers)

	case "inputBuilder":
		var c []*ssa.Function
		for _, f := range arg {
			if len(p.RCalls(f, GAddOverwrite)) > 0 {
				// the role is the function that also hands back the converter list: when registering the supplied values
				// was made a step of it, lift the step to the function that drives it
				for i := 0; i < 3; i++ {
					hasConvs := false
					rs := f.Signature.Results()
					for j := 0; j < rs.Len(); j++ {
						if TypeStr(rs.At(j).Type()) == "[]*Func" {
							hasConvs = true
						}
					}
					sites := p.Callers(f)
					if hasConvs || len(sites) == 0 || !p.InTarget(sites[0].Parent()) {
						break
					}
					// one driver, however many times it calls the step (`addInput` once per table)
					drv := Outer(sites[0].Parent())
					same := true
					for _, s := range sites {
						if Outer(s.Parent()) != drv {
							same = false
						}
					}
					if !same || drv == f {
						break
					}
					f = drv
				}
				c = append(c, f)
			}
		}
		return one(role, c)

	case "funcBuilder":
		// adds a vertex whose struct has a *Func field
		var c []*ssa.Function
		for _, f := range arg {
			for _, call := range Calls(f, GAdd, GAddOverwrite) {
				args := call.Common().Args
				if len(args) < 2 {
					continue
				}
				if s, _ := StructOf(Strip(args[1]).Type()); s != nil {
					for i := 0; i < s.NumFields(); i++ {
						if TypeStr(s.Field(i).Type()) == "*Func" {
							c = append(c, f)
						}
					}
				}
			}
		}
		return one(role, c)

	case "outputMapper":
		// called from the resolver with the executor's result among its arguments
		res, err := p.Role("resolver")
		if err != nil {
			return nil, err
		}
		ex, _ := p.Role("executor")
		var c []*ssa.Function
		var resCalls []ssa.CallInstruction
		for _, g := range p.stepFuncs(res) {
			resCalls = append(resCalls, Calls(g)...)
		}
		for _, call := range resCalls {
			cal := call.Common().StaticCallee()
			if cal == nil || !p.InTarget(cal) || cal == ex || cal == res {
				continue
			}
			for _, a := range call.Common().Args {
				for _, s := range Sources(a) {
					if cc, ok := s.(*ssa.Call); ok && cc.Common().StaticCallee() == ex {
						c = append(c, cal)
					}
				}
			}
		}
		// the error accessor (Result).Err also receives the result: drop exported methods of Result
		var c2 []*ssa.Function
		for _, f := range c {
			if f.Signature.Recv() != nil && NamedOf(f.Signature.Recv().Type()) == "Result" {
				continue
			}
			c2 = append(c2, f)
		}
		return one(role, c2)

	case "planner":
		// calls the resolver with a constant-true bool argument, and is not Call
		res, err := p.Role("resolver")
		if err != nil {
			return nil, err
		}
		var c []*ssa.Function
		for _, f := range arg {
			if f == res {
				continue
			}
			for _, call := range Calls(f) {
				if call.Common().StaticCallee() != res {
					continue
				}
				for _, a := range call.Common().Args {
					if k, ok := a.(*ssa.Const); ok && k.Value != nil && k.Value.ExactString() == "true" {
						c = append(c, f)
					}
				}
			}
		}
		return one(role, c)

	case "optionApplier":
		// dynamically calls a value of type Arg
		var c []*ssa.Function
		for _, f := range arg {
			for _, call := range Calls(f) {
				cc := call.Common()
				if cc.IsInvoke() || cc.StaticCallee() != nil {
					continue
				}
				if _, isB := cc.Value.(*ssa.Builtin); isB {
					continue
				}
				if NamedOf(cc.Value.Type()) == "Arg" || TypeStr(cc.Value.Type()) == "Arg" {
					c = append(c, f)
				}
			}
		}
		return one(role, c)

	case "defaultsMerger":
		call, err := p.Role("Call")
		if err != nil {
			return nil, err
		}
		app, err := p.Role("optionApplier")
		if err != nil {
			return nil, err
		}
		var c []*ssa.Function
		for _, cal := range p.driverCallees(call) {
			if cal == app || p.callsFn(cal, app) {
				c = append(c, cal)
			}
		}
		return one(role, c)

	case "structWalker":
		// reads struct tags; grows the ordered value list of a ValueSet
		var c []*ssa.Function
		for _, f := range arg {
			if len(Calls(f, "(reflect.StructTag).Get")) > 0 {
				c = append(c, f)
			}
			Instrs(f, func(in ssa.Instruction) {
				if st, ok := in.(*ssa.Store); ok {
					if fr, ok := AsFieldAddr(st.Addr); ok && fr.Owner == "ValueSet" && fr.Field == "values" {
						if cl, ok := st.Val.(*ssa.Call); ok && CalleeName(cl.Common()) == "builtin.append" {
							c = append(c, f)
						}
					}
				}
			})
		}
		return one(role, c)

	case "lifter":
		// the non-exported function that calls reflect.StructOf and the struct walker
		w, err := p.Role("structWalker")
		if err != nil {
			return nil, err
		}
		var c []*ssa.Function
		for _, f := range arg {
			if f.Object() != nil && f.Object().Exported() {
				continue
			}
			if len(Calls(f, "reflect.StructOf")) > 0 && p.callsFn(f, w) {
				c = append(c, f)
			}
			// … and the function that decides between the direct struct form and lifting (asks the marker test, then
			// walks the struct)
			if p.callsFn(f, w) && f != w {
				for _, ci := range Calls(f) {
					if cal := ci.Common().StaticCallee(); cal != nil && p.InTarget(cal) && cal != w && len(cal.Params) == 1 && TypeStr(cal.Params[0].Type()) == "reflect.Type" && cal.Signature.Results().Len() == 1 && TypeStr(cal.Signature.Results().At(0).Type()) == "bool" {
						c = append(c, f)
					}
				}
			}
		}
		return one(role, c)

	case "convertMulti":
		cv, err := p.Role("Convert")
		if err != nil {
			return nil, err
		}
		return one(role, p.StaticCallees(cv))

	case "resultAdapter":
		om, err := p.Role("outputMapper")
		if err != nil {
			return nil, err
		}
		var c []*ssa.Function
		for _, cal := range p.StaticCallees(om) {
			if cal.Signature.Results().Len() == 1 && NamedOf(cal.Signature.Results().At(0).Type()) == "Result" {
				c = append(c, cal)
			}
		}
		return one(role, c)

	case "zeroBody":
		// the function whose result the planner stores into the Func fn field
		pl, err := p.Role("planner")
		if err != nil {
			return nil, err
		}
		fnField := p.FuncFnField()
		var c []*ssa.Function
		p.plannerRegionInstrs(pl, func(in ssa.Instruction) {
			st, ok := in.(*ssa.Store)
			if !ok {
				return
			}
			if fr, ok := AsFieldAddr(st.Addr); ok && fr.Owner == "Func" && fr.Field == fnField {
				if call, ok := st.Val.(*ssa.Call); ok {
					if cal := call.Common().StaticCallee(); cal != nil && p.InTarget(cal) {
						c = append(c, cal)
					}
				}
			}
		})
		return one(role, c)

	case "outputValidator":
		// callee of Redefine that dynamically calls a FilterFunc
		rd, err := p.Role("Redefine")
		if err != nil {
			return nil, err
		}
		var c []*ssa.Function
		for _, cal := range p.StaticCallees(rd) {
			for _, call := range Calls(cal) {
				cc := call.Common()
				if !cc.IsInvoke() && cc.StaticCallee() == nil && TypeStr(cc.Value.Type()) == "FilterFunc" {
					c = append(c, cal)
				}
			}
		}
		return one(role, c)
	}
	return nil, fmt.Errorf("unknown role %q", role)
}

// HashcodeFn is the vertex hashing function of package graph, located by role:
// the only in-package function the exported VertexID calls.
func (p *Prog) HashcodeFn() *ssa.Function {
	vid := p.Func(p.Graph, "VertexID")
	if vid == nil {
		return nil
	}
	var out *ssa.Function
	for _, ci := range Calls(vid) {
		if cal := ci.Common().StaticCallee(); cal != nil && p.InTarget(cal) {
			out = cal
		}
	}
	return out
}

// IsHashcodeCall reports whether v is a call of the vertex hashing function (or of the exported VertexID).
func (p *Prog) IsHashcodeCall(v ssa.Value) (*ssa.Call, bool) {
	cl, ok := v.(*ssa.Call)
	if !ok {
		return nil, false
	}
	cal := cl.Common().StaticCallee()
	if cal != nil && (cal == p.HashcodeFn() || CalleeName(cl.Common()) == GVertexID) {
		return cl, true
	}
	return nil, false
}

// plannerRegionInstrs visits the planner and the helper-like functions only it calls (role resolution cannot use
// Region, which itself depends on the resolved roles).
func (p *Prog) plannerRegionInstrs(pl *ssa.Function, fn func(ssa.Instruction)) {
	for _, g := range p.stepFuncs(pl) {
		Instrs(g, fn)
	}
}

// stepFuncs: f, its literals, and the helper-like functions only f (or one of those) calls.
func (p *Prog) stepFuncs(f *ssa.Function) []*ssa.Function {
	seen := map[*ssa.Function]bool{f: true}
	var out []*ssa.Function
	work := []*ssa.Function{f}
	for len(work) > 0 {
		h := work[len(work)-1]
		work = work[:len(work)-1]
		for _, g := range WithNested(h) {
			out = append(out, g)
			for _, ci := range Calls(g) {
				cal := ci.Common().StaticCallee()
				if cal == nil || seen[cal] {
					continue
				}
				if caller, ok := p.helperLike(cal); ok && seen[caller] {
					seen[cal] = true
					work = append(work, cal)
				}
			}
		}
	}
	return out
}

// driverCallees: the static callees of f and of the helper-like step functions that only f calls (f was split into
// steps), the steps themselves excluded.
func (p *Prog) driverCallees(f *ssa.Function) []*ssa.Function {
	seen := map[*ssa.Function]bool{f: true}
	var out []*ssa.Function
	work := []*ssa.Function{f}
	for len(work) > 0 {
		g := work[len(work)-1]
		work = work[:len(work)-1]
		for _, cal := range p.StaticCallees(g) {
			if seen[cal] {
				continue
			}
			seen[cal] = true
			if caller, ok := p.helperLike(cal); ok && caller == g && cal.Signature.Recv() != nil == (g.Signature.Recv() != nil) && p.isStep(cal, f) {
				work = append(work, cal)
				continue
			}
			out = append(out, cal)
		}
	}
	return out
}

// isStep: h is a step of driver f — helper-like with f as its only caller and itself calling further in-target
// functions with error results (a leaf helper is an ordinary callee).
func (p *Prog) isStep(h, f *ssa.Function) bool {
	n := 0
	for _, cal := range p.StaticCallees(h) {
		r := cal.Signature.Results()
		if r.Len() > 0 && TypeStr(r.At(r.Len()-1).Type()) == "error" {
			n++
		}
	}
	return n >= 2
}
