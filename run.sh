#!/bin/bash
# run.sh <property id> <quick|thorough>
# Analyses /repo's current working tree from source (nothing cached between runs),
# prints VIOLATION / KNOWN-FINDING lines, rewrites evidence/<id>.json.
# Exit 0: all obligations discharged (known findings listed); 1: violation; 2: checker could not run.
#
# thorough = quick rules + whole-program closures (EDGE-C) + positive controls: every
# confirmed seeded change for this property (seeded/<id>-*/patch.diff) is applied to a scratch
# copy of the current tree OUTSIDE /repo and /verif, analysed (never executed), and must be
# reported; the scratch copy is removed at once. A control whose patch does not apply to the
# current tree is skipped (recorded in the evidence), never counted as a failure.
# Negative controls (behaviour-preserving variants from benign/) are analysed the same way and
# recorded; they are informational.
set -u
id=${1:?property id}
tier=${2:-${VERIF_TIER:-quick}}
here=$(cd "$(dirname "$0")" && pwd)
export GOFLAGS=-mod=mod GOPROXY=off GOSUMDB=off GOTOOLCHAIN=local GOWORK=off
bin="$here/bin/argverif"
if [ ! -x "$bin" ] || [ -n "$(find "$here/checker" -name '*.go' -newer "$bin" -print -quit 2>/dev/null)" ]; then
  (cd "$here/checker" && go build -o "$bin" ./cmd/argverif) || { echo "run.sh: cannot build checker" >&2; exit 2; }
fi
repo=${VERIF_REPO:-/repo}
rm -f "$here/evidence/$id.json"
controls=""
crc=0
if [ "$tier" = thorough ]; then
  controls=$(mktemp /tmp/argverif-controls.XXXXXX)
  echo "[" > "$controls"; first=1
  for sd in "$here"/seeded/$id-* "$here"/fixtures/$id-*; do
    [ -f "$sd/patch.diff" ] || continue
    name=$(basename "$sd")
    scratch=$(mktemp -d /tmp/argverif-ctl.XXXXXX)
    cp -r "$repo"/. "$scratch"/ 2>/dev/null; rm -rf "$scratch/.git"
    status=skipped-patch-does-not-apply; rules=""
    if (cd "$scratch" && patch -p1 -s --no-backup-if-mismatch < "$sd/patch.diff" >/dev/null 2>&1); then
      vd=$(mktemp -d /tmp/argverif-ctlv.XXXXXX); cp "$here/known_findings.json" "$vd/" 2>/dev/null
      out=$("$bin" -repo "$scratch" -verif "$vd" -property "$id" -tier quick 2>&1); rc=$?
      rules=$(echo "$out" | grep -oE "rule=[A-Z0-9-]+" | sort -u | sed 's/rule=//' | tr '\n' ' ')
      if [ $rc -eq 1 ]; then status=reported; elif [ $rc -eq 2 ]; then status=not-analysable; else status=MISSED; crc=2; fi
      rm -rf "$vd"
    fi
    rm -rf "$scratch"
    [ $first -eq 1 ] || echo "," >> "$controls"; first=0
    printf '{"control":"%s","status":"%s","rules":"%s"}' "$name" "$status" "$rules" >> "$controls"
    [ "$status" = MISSED ] && echo "CONTROL-FAILED property=$id positive control $name (a confirmed breaking change) was not reported" >&2
  done
  # negative controls: the repaired twin of this property's disguised seed (same refactoring, slip corrected) and the
  # hand-written behaviour-preserving variants must NOT be reported. Informational: recorded in the evidence, never
  # changes the exit status (two twins are documented limits, DESIGN §7.5).
  for bd in "$here"/benign/R9-$id "$here"/benign/R7-* "$here"/benign/R8-*; do
    [ -f "$bd/patch.diff" ] || continue
    name=$(basename "$bd")
    scratch=$(mktemp -d /tmp/argverif-ctl.XXXXXX)
    cp -r "$repo"/. "$scratch"/ 2>/dev/null; rm -rf "$scratch/.git"
    status=skipped-patch-does-not-apply; rules=""
    if (cd "$scratch" && patch -p1 -s --no-backup-if-mismatch < "$bd/patch.diff" >/dev/null 2>&1); then
      vd=$(mktemp -d /tmp/argverif-ctlv.XXXXXX); cp "$here/known_findings.json" "$vd/" 2>/dev/null
      out=$("$bin" -repo "$scratch" -verif "$vd" -property "$id" -tier quick 2>&1); rc=$?
      rules=$(echo "$out" | grep -oE "rule=[A-Z0-9-]+" | sort -u | sed 's/rule=//' | tr '\n' ' ')
      if [ $rc -eq 0 ]; then status=silent; elif [ $rc -eq 2 ]; then status=not-analysable; else status=reported-though-benign; fi
      rm -rf "$vd"
    fi
    rm -rf "$scratch"
    [ $first -eq 1 ] || echo "," >> "$controls"; first=0
    printf '{"control":"%s","kind":"negative","status":"%s","rules":"%s"}' "$name" "$status" "$rules" >> "$controls"
  done
  echo "]" >> "$controls"
fi
"$bin" -repo "$repo" -verif "$here" -property "$id" -tier "$tier" ${controls:+-controls "$controls"}
rc=$?
[ -n "$controls" ] && rm -f "$controls"
if [ $rc -eq 0 ] && [ $crc -ne 0 ]; then rc=$crc; fi
exit $rc
