#!/bin/bash
# run.sh <property id> <quick|thorough>
# Analyses /repo's current working tree from source (nothing cached between runs),
# prints VIOLATION / KNOWN-FINDING lines, rewrites evidence/<id>.json.
# The evidence file is never absent while a check runs: the analysis of the tree comes first in both tiers and replaces
# the file atomically (about a second after the start); in the thorough tier that first version says the controls are
# pending and is replaced again when they have finished. Only a run that could not analyse the tree (exit 2) removes it.
# Exit 0: all obligations discharged (known findings listed); 1: violation; 2: checker could not run.
#
# thorough = quick rules + whole-program closures (EDGE-C) + positive controls: every
# confirmed seeded change for this property (seeded/<id>-*/patch.diff) is applied to a scratch
# copy of the current tree OUTSIDE /repo and /verif, analysed (never executed), and must be
# reported; the scratch copy is removed at once (tools/control_one.sh; VERIF_JOBS controls run at a time, default
# min(cores, 12)). A control whose patch does not apply to the
# current tree is skipped (recorded in the evidence), never counted as a failure.
# Negative controls (behaviour-preserving variants from benign/) are analysed the same way and
# recorded; they are informational.
set -u
id=${1:?property id}
tier=${2:-${VERIF_TIER:-quick}}
here=$(cd "$(dirname "$0")" && pwd)
export GOFLAGS=-mod=mod GOPROXY=off GOSUMDB=off GOTOOLCHAIN=local GOWORK=off
bin="$here/bin/argverif"
ev="$here/evidence/$id.json"
if [ ! -x "$bin" ] || [ -n "$(find "$here/checker" -name '*.go' -newer "$bin" -print -quit 2>/dev/null)" ]; then
  mkdir -p "$here/bin"
  # built beside the target and moved into place: checks started in parallel never execute a half-written binary
  (cd "$here/checker" && go build -o "$bin.$$" ./cmd/argverif && mv -f "$bin.$$" "$bin") || { rm -f "$bin.$$" "$ev"; echo "run.sh: cannot build checker" >&2; exit 2; }
fi
repo=${VERIF_REPO:-/repo}
case "$tier" in quick|thorough) ;; *) echo "run.sh: tier must be quick or thorough" >&2; exit 2;; esac

if [ "$tier" = quick ]; then
  "$bin" -repo "$repo" -verif "$here" -property "$id" -tier quick
  rc=$?
  [ $rc -eq 2 ] && rm -f "$ev"
  exit $rc
fi

# thorough, step 1: the tree itself (rules of the quick tier + whole-program closures). Writes the evidence at once,
# with the controls marked pending. A violation on the tree is reported without waiting for the controls.
out=$("$bin" -repo "$repo" -verif "$here" -property "$id" -tier thorough -controls pending 2>&1)
rc=$?
if [ $rc -ne 0 ]; then
  echo "$out"
  [ $rc -eq 2 ] && rm -f "$ev"
  exit $rc
fi

# step 2: the controls, in parallel, each on its own scratch copy
work=$(mktemp -d /tmp/argverif-run.XXXXXX)
xpid=
cleanup() {
  # an interrupted run stops its workers (each removes its own scratch copy on the way out) and leaves nothing in /tmp
  if [ -n "$xpid" ]; then pkill -TERM -P "$xpid" 2>/dev/null; kill -TERM "$xpid" 2>/dev/null; wait "$xpid" 2>/dev/null; fi
  rm -rf "$work"
}
trap cleanup EXIT
trap 'exit 143' INT TERM HUP
n=0
: > "$work/list"
for sd in "$here"/seeded/$id-* "$here"/fixtures/$id-*; do
  [ -f "$sd/patch.diff" ] || continue
  n=$((n+1)); printf 'positive\t%s\t%s\n' "$sd" "$work/$(printf %05d $n).json" >> "$work/list"
done
# negative controls: the repaired twin of this property's disguised seed (same refactoring, slip corrected) and the
# hand-written behaviour-preserving variants must NOT be reported. Informational: recorded in the evidence, never
# changes the exit status (two twins are documented limits, DESIGN §7.5).
for bd in "$here"/benign/R9-$id "$here"/benign/R7-* "$here"/benign/R8-*; do
  [ -f "$bd/patch.diff" ] || continue
  n=$((n+1)); printf 'negative\t%s\t%s\n' "$bd" "$work/$(printf %05d $n).json" >> "$work/list"
done
jobs=${VERIF_JOBS:-$(nproc 2>/dev/null || echo 4)}
[ "$jobs" -gt 12 ] 2>/dev/null && jobs=12
[ "$jobs" -ge 1 ] 2>/dev/null || jobs=1
tr '\t' '\n' < "$work/list" > "$work/args"
# xargs appends <kind> <variant dir> <out file> to the fixed arguments; in the background so that a signal is acted on at once
xargs -d '\n' -n 3 -P "$jobs" "$here/tools/control_one.sh" "$bin" "$repo" "$here/known_findings.json" "$id" < "$work/args" &
xpid=$!
wait $xpid
xpid=
controls="$work/controls.json"
crc=0
{
  echo "["; first=1
  while IFS="$(printf '\t')" read -r kind dir of; do
    name=$(basename "$dir")
    if [ ! -s "$of" ]; then
      # the worker died before it could say anything: recorded as not analysable, never as reported or silent
      if [ "$kind" = positive ]; then printf '{"control":"%s","status":"not-analysable","rules":""}' "$name" > "$of"
      else printf '{"control":"%s","kind":"negative","status":"not-analysable","rules":""}' "$name" > "$of"; fi
    fi
    [ $first -eq 1 ] || echo ","; first=0
    cat "$of"
  done < "$work/list"
  echo; echo "]"
} > "$controls"
for name in $(grep -o '"control":"[^"]*","status":"MISSED"' "$controls" | cut -d'"' -f4); do
  crc=2
  echo "CONTROL-FAILED property=$id positive control $name (a confirmed breaking change) was not reported" >&2
done

# step 3: the tree again (the source may have changed meanwhile: the verdict printed is the one of this analysis),
# evidence replaced with the outcome of every control
"$bin" -repo "$repo" -verif "$here" -property "$id" -tier thorough -controls "$controls"
rc=$?
[ $rc -eq 2 ] && rm -f "$ev"
if [ $rc -eq 0 ] && [ $crc -ne 0 ]; then rc=$crc; fi
exit $rc
