#!/bin/bash
# run.sh <property id> <quick|thorough>
# Analyses /repo's current working tree from source (nothing cached between runs),
# prints VIOLATION / KNOWN-FINDING lines, rewrites evidence/<id>.json.
# Exit 0: all obligations discharged (known findings listed); 1: violation; 2: checker could not run.
set -u
id=${1:?property id}
tier=${2:-${VERIF_TIER:-quick}}
here=$(cd "$(dirname "$0")" && pwd)
export GOFLAGS=-mod=mod GOPROXY=off GOSUMDB=off GOTOOLCHAIN=local GOWORK=off
bin="$here/bin/argverif"
if [ ! -x "$bin" ] || [ -n "$(find "$here/checker" -name '*.go' -newer "$bin" -print -quit 2>/dev/null)" ]; then
  (cd "$here/checker" && go build -o "$bin" ./cmd/argverif) || { echo "run.sh: cannot build checker" >&2; exit 2; }
fi
repo=${VERIF_REPO:-/repo}
rm -f "$here/evidence/$id.json"
"$bin" -repo "$repo" -verif "$here" -property "$id" -tier "$tier"
rc=$?
if [ "$tier" = thorough ] && [ $rc -eq 0 ] && [ -x "$here/fixtures/run_controls.sh" ]; then
  "$here/fixtures/run_controls.sh" "$id" || rc=$?
fi
exit $rc
